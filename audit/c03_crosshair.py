"""CrossHair audit of C03 (second engine): the REAL source of utils.topological_ordering / is_dag (and the
helpers they call), read from /repo at import time, runs through the symnp shim on CrossHair's own symbolic
floats; the postcondition is the definition (acyclicity of the non-zero pattern by DFS; returned order is a
permutation in which every edge points forward).

run:  python -m crosshair check --report_all --per_condition_timeout 300 audit/c03_crosshair.py
"""
import os
import sys
from typing import List

VERIF = os.path.dirname(os.path.dirname(os.path.abspath(__file__)))
sys.path.insert(0, VERIF)
sys.path.append(os.path.join(VERIF, '.deps'))

import symnp as np                      # noqa: E402
from symx.loader import Twin            # noqa: E402

_tw = Twin(trace=False)
_u = _tw.load('sempler.utils')


def _acyclic(nz, p):
    color = [0] * p

    def dfs(u):
        color[u] = 1
        for v in range(p):
            if nz[u][v]:
                if color[v] == 1 or (color[v] == 0 and not dfs(v)):
                    return False
        color[u] = 2
        return True
    return all(color[s] != 0 or dfs(s) for s in range(p))


def _check(rows, p):
    nz = [[rows[i][j] != 0 for j in range(p)] for i in range(p)]
    A = np.ndarray._new([rows[i][j] for i in range(p) for j in range(p)], (p, p), 'float')
    want = _acyclic(nz, p)
    try:
        order = [int(x) for x in _u.topological_ordering(A)]
    except ValueError:
        return not want
    if not want:
        return False
    if sorted(order) != list(range(p)):
        return False
    pos = {v: k for k, v in enumerate(order)}
    return all((not nz[i][j]) or pos[i] < pos[j] for i in range(p) for j in range(p))


def audit_2x2(a: float, b: float, c: float, d: float) -> bool:
    """
    pre: all(x == x and abs(x) < 1e6 for x in (a, b, c, d))
    post: _
    """
    return _check([[a, b], [c, d]], 2)


def audit_3x3(w: List[float]) -> bool:
    """
    pre: len(w) == 9 and all(x == x and abs(x) < 1e6 for x in w)
    post: _
    """
    return _check([w[0:3], w[3:6], w[6:9]], 3)
