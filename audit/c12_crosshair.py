"""CrossHair audit of C12 (second engine, independent of symx): the REAL source of
generators.intervention_targets (read from /repo at import time) runs on CrossHair's symbolic ints; the
generator is a tiny deterministic stand-in driven by a symbolic list `picks` (so every outcome allowed
by the contract of integers / choice-without-replacement is reachable).

run:  python -m crosshair check --report_all --per_condition_timeout 150 audit/c12_crosshair.py
"""
import ast
import os
import types
from typing import List

REPO = os.environ.get('VERIF_REPO', '/repo')


class _Rng:
    def __init__(self, picks):
        self.picks = picks
        self.i = 0

    def _next(self, n):
        v = self.picks[self.i % len(self.picks)]
        self.i += 1
        return v % n

    def integers(self, low, high, size):
        return [low + self._next(high - low) for _ in range(size)]

    def choice(self, items, size=None, replace=True):
        items = list(items)
        if not replace and size > len(items):
            raise ValueError("Cannot take a larger sample than population when replace is False")
        out = []
        for _ in range(size):
            if replace:
                out.append(items[self._next(len(items))])
            else:
                out.append(items.pop(self._next(len(items))))
        return out


class _Random:
    def __init__(self):
        self.picks = [0]

    def default_rng(self, seed=None):
        return _Rng(self.picks)


_np = types.SimpleNamespace(random=_Random())


def _load():
    src = open(os.path.join(REPO, 'sempler', 'generators.py')).read()
    tree = ast.parse(src)
    fn = [n for n in tree.body if isinstance(n, ast.FunctionDef) and n.name == 'intervention_targets'][0]
    mod = ast.Module(body=[fn], type_ignores=[])
    ns = {'np': _np}
    exec(compile(mod, os.path.join(REPO, 'sempler', 'generators.py'), 'exec'), ns)
    return ns['intervention_targets']


intervention_targets = _load()


def audit_int_size(p: int, K: int, size: int, replace: bool, picks: List[int]) -> bool:
    """
    pre: 1 <= p <= 3 and 0 <= K <= 2 and 0 <= size <= 4
    pre: len(picks) == 4 and all(0 <= x < 6 for x in picks)
    post: _
    """
    _np.random.picks = picks
    expect_error = size > p or ((not replace) and size * K > p)
    try:
        res = intervention_targets(p, K, size, replace=replace, random_state=0)
    except ValueError:
        return expect_error
    if expect_error:
        return False
    if len(res) != K:
        return False
    seen = set()
    for iv in res:
        if len(iv) != size or len(set(iv)) != len(iv) or any(x < 0 or x >= p for x in iv):
            return False
        if not replace and (seen & set(iv)):
            return False
        seen |= set(iv)
    return True


def audit_range_size(p: int, K: int, lo: int, hi: int, replace: bool, picks: List[int]) -> bool:
    """
    pre: 1 <= p <= 3 and 0 <= K <= 2 and 0 <= lo <= hi <= 4
    pre: len(picks) == 4 and all(0 <= x < 6 for x in picks)
    post: _
    """
    _np.random.picks = picks
    expect_error = hi > p or ((not replace) and hi * K > p)
    try:
        res = intervention_targets(p, K, (lo, hi), replace=replace, random_state=0)
    except ValueError:
        return expect_error
    if expect_error:
        return False
    if len(res) != K:
        return False
    seen = set()
    for iv in res:
        if not (lo <= len(iv) <= hi) or len(set(iv)) != len(iv) or any(x < 0 or x >= p for x in iv):
            return False
        if not replace and (seen & set(iv)):
            return False
        seen |= set(iv)
    return True
