"""C02 -- ANM samples satisfy the structural assignments row by row."""
import itertools
import z3
import symnp as np
from symx.core import SV, Poly, ATOMS, PathInfeasible
from harness.common import Obligation, PathResult, real_sempler, unj, unj_float
from harness import inputs as I
from oracles import graph as G

PID = 'C02'

META = dict(
    explanation="ANM.__init__ / ANM.sample (functions.null, utils.topological_ordering) are executed on every DAG pattern with symbolic "
                "real weights. Assignment callables are UNINTERPRETED functions f_i(x_1..x_k) applied row-wise to the array they "
                "receive (hence arbitrary: non-linear, non-symmetric), in four flavours (returning an (n,) vector, an (n,1) column, a VIEW of their own input (the first parent's column), "
                "or - for parentless variables - None / functions.null / a scalar); noise, do-, shift- and noise-intervention "
                "callables return fresh symbolic draws and record that they were called with n. Intervention membership of every "
                "variable is symbolic (none / do / shift / noise / do+shift / do+noise). z3 (QF_UF + linear real arithmetic) decides "
                "per path: the result is n x p; a do-target equals its intervention draw alone; otherwise X[r,i] = f_i(X[r, parents in "
                "increasing index]) + (noise + shift | new noise | noise), with the parents taken from the oracle's own non-zero pattern.",
    bounds=dict(quick="p <= 3 all DAG patterns x all intervention assignments x 4 callable flavours, n in {0,1,2}; p = 4 with at most 1 intervened variable, n = 1; wide graphs: p = 10 with one child of two arbitrary parents (all 36x... index choices), n = 1",
                thorough="p = 4 all assignments with n = 2; wide graphs p = 12"),
    outside=["n > 2", "assignment callables that inspect or mutate global state", "targets that are both shift- and noise-intervened (the statement gives no rule)"],
    stubs=["numpy -> symnp", "assignment / noise / intervention callables -> uninterpreted functions and fresh symbolic draws"],
    assumptions=["z3 sound (QF_UFLRA)"],
)

KINDS = ['none', 'do', 'shift', 'noise', 'do+shift', 'do+noise']


class UF:
    """assignment callable: an uninterpreted function of the parent values, applied to each row"""

    def __init__(self, i, flavour, calls):
        self.i = i
        self.flavour = flavour
        self.calls = calls

    def __deepcopy__(self, memo):
        return UF(self.i, self.flavour, self.calls)

    def term(self, args):
        k = len(args)
        f = z3.Function('f_%d_%d' % (self.i, k), *([z3.RealSort()] * k + [z3.RealSort()])) if k else None
        if k == 0:
            return SV(Poly.atom(ATOMS.get(z3.Real('f_%d_const' % self.i))), None, False)
        zs = []
        for a in args:
            if isinstance(a, SV):
                zs.append(a.zterm() if not a.isint else z3.ToReal(a.zterm()))
            else:
                zs.append(z3.RealVal(str(np.Fraction(a))) if isinstance(a, float) else z3.RealVal(a))
        return SV(Poly.atom(ATOMS.get(f(*zs))), None, False)

    def __call__(self, X):
        self.calls.append((self.i, X.shape if isinstance(X, np.ndarray) else None))
        if not isinstance(X, np.ndarray) or X.ndim != 2:
            raise TypeError("assignment expected an n x k array, got %r" % (getattr(X, 'shape', None),))
        n, k = X.shape
        vals = [self.term([X[r, c] for c in range(k)]) for r in range(n)]
        if self.flavour == 'column':
            return np.ndarray._new(vals, (n, 1), 'float')
        return np.ndarray._new(vals, (n,), 'float')


class Draw:
    """noise / intervention callable: returns fresh symbolic draws, records its argument"""

    def __init__(self, eng, name, calls):
        self.eng = eng
        self.name = name
        self.calls = calls
        self.count = 0

    def __deepcopy__(self, memo):
        return self   # the model may copy its callables; the draws stay identifiable

    def __call__(self, n):
        self.calls.append((self.name, n))
        c = self.count
        self.count += 1
        n = int(n)
        vals = [self.eng.real('%s_c%d_r%d' % (self.name, c, r)) for r in range(n)]
        self.last = vals
        return np.ndarray._new(vals, (n,), 'float')


def _run(ctx, rows, pat, p, n, flavour, kinds, Aarr=None):
    e = ctx.eng
    am = ctx.mod('sempler.anm')
    fn = ctx.mod('sempler.functions')
    calls = []
    nz = [[bool(pat[i][j]) for j in range(p)] for i in range(p)]
    parents = [[i for i in range(p) if nz[i][j]] for j in range(p)]
    assignments = []
    ufs = {}
    for i in range(p):
        if not parents[i]:
            assignments.append([None, fn.null, None][i % 3] if flavour != 'scalar' else (lambda X: 0))
        else:
            if flavour == 'firstcol':
                # a concrete assignment that returns (a view of) its own input: the first parent's column
                ufs[i] = None
                assignments.append(lambda X: X[:, 0])
            else:
                ufs[i] = UF(i, flavour if flavour in ('vector', 'column') else 'vector', calls)
                assignments.append(ufs[i])
    noises = [Draw(e, 'N%d' % i, calls) for i in range(p)]
    do, shift, noise = {}, {}, {}
    for i in range(p):
        k = kinds[i]
        if 'do' in k:
            do[i] = Draw(e, 'D%d' % i, calls)
        if 'shift' in k:
            shift[i] = Draw(e, 'S%d' % i, calls)
        if 'noise' in k:
            noise[i] = Draw(e, 'M%d' % i, calls)
    A = Aarr if Aarr is not None else I.arr(rows, 'float')
    A.buf.frozen = True
    cl = []
    try:
        model = am.ANM(A, assignments, noises)
        X = model.sample(n, do_interventions=do, shift_interventions=shift, noise_interventions=noise)
        ok = isinstance(X, np.ndarray) and X.shape == (n, p)
        cl.append(('the sample has n rows and one column per variable', ok))
        if ok:
            for r in range(n):
                for i in range(p):
                    if i in do:
                        cl.append(('do-target X%d equals the intervention draw alone (row %d)' % (i, r),
                                   len(do[i].last) == n and X[r, i] == do[i].last[r]))
                        continue
                    if parents[i] and flavour == 'firstcol':
                        base = X[r, parents[i][0]]
                    elif parents[i]:
                        base = ufs[i].term([X[r, c] for c in parents[i]])
                    else:
                        base = 0
                    if i in shift:
                        term = noises[i].last[r] + shift[i].last[r]
                    elif i in noise:
                        term = noise[i].last[r]
                    else:
                        term = noises[i].last[r]
                    cl.append(('X%d = f(parents in increasing index) + noise term (row %d)' % (i, r), X[r, i] == base + term))
            cl.append(('every noise / intervention callable is called with n', all(c[1] == n for c in calls if isinstance(c[0], str))))
        outcome = 'returned'
    except Exception as ex:
        outcome = 'raised ' + type(ex).__name__
        cl.append(('sampling must not raise (%s: %s)' % (type(ex).__name__, str(ex)[:100]), False))
    return outcome, cl


def h_anm(ctx):
    e = ctx.eng
    p, n, flavour = ctx.params['p'], ctx.params['n'], ctx.params['flavour']
    rows, pat = I.weighted_dag(ctx)
    kinds = []
    nt = 0
    for i in range(p):
        c = e.int('kind_%d' % i)
        e.assume(c >= 0)
        e.assume(c < len(KINDS))
        k = KINDS[int(c)]
        if k != 'none':
            nt += 1
            if ctx.params.get('max_targets') is not None and nt > ctx.params['max_targets']:
                raise PathInfeasible()
        kinds.append(k)
    outcome, cl = _run(ctx, rows, pat, p, n, flavour, kinds)
    return PathResult(outcome, cl, inputs=dict(A=rows, kinds=kinds, n=n, flavour=flavour), call='anm',
                      info=dict(pattern=[list(r) for r in pat], kinds=kinds, n=n, flavour=flavour))


def h_wide(ctx):
    """p nodes, one child with two parents at arbitrary (symbolically chosen) positions"""
    e = ctx.eng
    p = ctx.params['p']
    a, b, c = e.int('pa1'), e.int('pa2'), e.int('child')
    for v in (a, b, c):
        e.assume(v >= 0)
        e.assume(v < p)
    e.assume(a < b)
    e.assume(c != a)
    e.assume(c != b)
    ai, bi, ci = int(a), int(b), int(c)
    rows = [[0.0] * p for _ in range(p)]
    w1, w2 = e.real('w1'), e.real('w2')
    e.assume(w1 != 0)
    e.assume(w2 != 0)
    rows[ai][ci] = w1
    rows[bi][ci] = w2
    pat = tuple(tuple(0 if isinstance(rows[i][j], float) else 1 for j in range(p)) for i in range(p))
    outcome, cl = _run(ctx, rows, pat, p, 1, 'vector', ['none'] * p)
    return PathResult(outcome, cl, inputs=dict(A=rows, kinds=['none'] * p, n=1, flavour='vector'), call='anm',
                      info=dict(p=p, parents=[ai, bi], child=ci))


def obligations(tier):
    ob = []
    for p in (1, 2, 3):
        cubes = []
        for n in (0, 1, 2):
            for fl in ('vector', 'column', 'scalar', 'firstcol'):
                for c in I.dag_pair_cubes(p, 2 if p == 3 else 0):
                    cubes.append(dict(c, n=n, flavour=fl))
        ob.append(Obligation('anm_p%d' % p, h_anm, cubes, "ANM.sample on every DAG pattern on %d nodes, every intervention assignment, n in {0,1,2}, 4 callable flavours" % p,
                             expect=('returned',), weight=p * 4))
    if tier == 'quick':
        c4 = [dict(c, n=1, flavour='vector', max_targets=1) for c in I.dag_pair_cubes(4, 3)]
        ob.append(Obligation('anm_p4', h_anm, c4, "ANM.sample, 4 nodes, at most 1 intervened variable, n = 1", expect=('returned',), weight=40))
    else:
        c4 = [dict(c, n=2, flavour=fl) for c in I.dag_pair_cubes(4, 3) for fl in ('vector', 'column')]
        ob.append(Obligation('anm_p4', h_anm, c4, "ANM.sample, 4 nodes, all intervention assignments, n = 2", expect=('returned',), weight=200, timeout_ms=120000))
    pw = 10 if tier == 'quick' else 12
    ob.append(Obligation('anm_wide_p%d' % pw, h_wide, [dict(p=pw)], "%d nodes, one child with two parents at arbitrary positions (column order of the parents)" % pw,
                         expect=('returned',), weight=30))
    return ob


# ---- replay on the real library with recording callables -------------------------

def replay(rec):
    import numpy
    s = real_sempler()
    inp = rec['inputs']
    A = numpy.array(unj_float(inp['A']), dtype=float)
    p = len(A)
    n = max(int(inp['n']), 0)
    kinds = inp['kinds']
    flavour = inp['flavour']
    nzm = A != 0
    parents = [[i for i in range(p) if nzm[i][j]] for j in range(p)]
    rng = numpy.random.RandomState(7)
    draws = {}

    def mk(name):
        def f(m):
            v = rng.uniform(-3, 3, m)
            draws.setdefault(name, []).append((m, v))
            return v
        return f

    def fassign(i, cols):
        # non-linear, non-symmetric in its arguments
        return numpy.sin(sum((k + 1.37) * (cols[:, k] + 0.11 * k) ** (1 + (k % 2)) for k in range(cols.shape[1]))) + 0.5 * cols[:, 0]
    assignments = []
    for i in range(p):
        if not parents[i]:
            assignments.append([None, s.functions.null, None][i % 3] if flavour != 'scalar' else (lambda X: 0))
        elif flavour == 'firstcol':
            assignments.append(lambda X: X[:, 0])
        elif flavour == 'column':
            assignments.append((lambda i: (lambda X: fassign(i, X).reshape(-1, 1)))(i))
        else:
            assignments.append((lambda i: (lambda X: fassign(i, X)))(i))
    noises = [mk('N%d' % i) for i in range(p)]
    do, shift, noise = {}, {}, {}
    for i in range(p):
        if 'do' in kinds[i]:
            do[i] = mk('D%d' % i)
        if 'shift' in kinds[i]:
            shift[i] = mk('S%d' % i)
        if 'noise' in kinds[i]:
            noise[i] = mk('M%d' % i)
    bad = []
    try:
        model = s.ANM(A, assignments, noises)
        X = model.sample(n, do_interventions=do, shift_interventions=shift, noise_interventions=noise)
        if X.shape != (n, p):
            bad.append('shape %s' % (X.shape,))
        else:
            for i in range(p):
                if i in do:
                    want = draws['D%d' % i][-1][1]
                else:
                    base = (X[:, parents[i][0]] if flavour == 'firstcol' else fassign(i, X[:, parents[i]])) if parents[i] else 0
                    if i in shift:
                        want = base + draws['N%d' % i][-1][1] + draws['S%d' % i][-1][1]
                    elif i in noise:
                        want = base + draws['M%d' % i][-1][1]
                    else:
                        want = base + draws['N%d' % i][-1][1]
                if not numpy.allclose(X[:, i], want, rtol=1e-9, atol=1e-12):
                    bad.append('column %d = %s, structural equation gives %s' % (i, X[:, i].tolist(), numpy.asarray(want).tolist()))
            for name, lst in draws.items():
                if any(m != n for m, _ in lst):
                    bad.append('%s called with %s' % (name, [m for m, _ in lst]))
    except Exception as ex:
        bad.append('raised %s: %s' % (type(ex).__name__, ex))
    return (len(bad) > 0, 'ANM on A=%s kinds=%s n=%d flavour=%s: %s' % (A.tolist() if p <= 4 else 'p=%d edges %s' % (p, numpy.argwhere(nzm).tolist()),
                                                                  kinds if p <= 4 else '-', n, flavour, '; '.join(bad[:3]) or 'equations satisfied'))
