"""C03 -- Acyclicity test and topological order are exact for any weights."""
import itertools
import symnp as np
from harness.common import Obligation, PathResult, real_sempler, unj_float, unj, get_twin
from oracles import graph as G

PID = 'C03'

META = dict(
    explanation="utils.topological_ordering / is_dag and the LGANM / ANM / BayesianNetwork constructors are executed "
                "on a fully symbolic p x p matrix (every entry, diagonal included, an unconstrained Real or Int); the "
                "engine forks wherever the code branches on an entry and z3 decides per path that the outcome agrees "
                "with the reachability-closure definition of acyclicity of the non-zero pattern.",
    bounds=dict(
        quick="p in {1,2,3} fully symbolic Real and Int matrices (all 2^(p*p) patterns x all weights); p = 4 Real for topological_ordering/is_dag; constructors p <= 3",
        thorough="as quick plus p = 4 Int, constructors at p = 4, p = 5 Real restricted to matrices with at most 7 non-zero entries, and a CrossHair audit (second engine) of topological_ordering on 2 x 2 and 3 x 3 float matrices",
    ),
    outside=["non-square input, NaN/inf entries", "p > 5", "floating-point under/overflow (weights are exact reals)", "fixed-width integer wraparound and float under/overflow inside the implementation (the engine computes with mathematical integers and exact reals: integer-typed inputs are claimed only while all intermediate products / sums fit into int64; narrower integer dtypes such as int8 are outside)"],
    stubs=["numpy -> symnp (pure-Python shim over symbolic scalars)", "numpy.random.default_rng -> contract stub (LGANM constructor only)"],
    assumptions=["z3 is sound; the symnp shim agrees with numpy on the operations used (checked per path by differential validation)"],
)


def _cubes(p, nbits, extra=None):
    """split the input space by the non-zero pattern of the first nbits off-diagonal entries"""
    cells = [(i, j) for i in range(p) for j in range(p) if i != j][:nbits]
    out = []
    for bits in itertools.product((False, True), repeat=len(cells)):
        d = dict(p=p, fix=[[i, j, b] for (i, j), b in zip(cells, bits)])
        if extra:
            d.update(extra)
        out.append(d)
    return out


def _matrix(ctx, kind):
    e = ctx.eng
    p = ctx.params['p']
    mk = e.real if kind == 'real' else e.int
    rows = [[mk('w_%d_%d' % (i, j)) for j in range(p)] for i in range(p)]
    A = np.array(rows)
    for (i, j, b) in ctx.params.get('fix', []):
        e.assume((rows[i][j] != 0) if b else (rows[i][j] == 0))
    maxnz = ctx.params.get('max_nz')
    if maxnz is not None:
        cnt = 0
        for r in rows:
            for x in r:
                t = (x != 0)
                cnt = cnt + (int(t) if isinstance(t, bool) else t.num())
        e.assume(cnt <= maxnz)
    return A, rows


def h_topo(kind):
    def fn(ctx):
        u = ctx.mod('sempler.utils')
        A, rows = _matrix(ctx, kind)
        A.buf.frozen = True   # input must not be modified
        nz = G.nz_matrix(rows)
        acyc = G.acyclic(nz)
        try:
            order = u.topological_ordering(A)
            order = [int(x) for x in order]
            outcome = 'returned'
            clauses = [('returned => acyclic', acyc),
                       ('order is a permutation with every edge forward', G.is_topological_order(nz, order))]
            sym = ['ok', order]
        except ValueError:
            outcome = 'raised ValueError'
            clauses = [('ValueError => not acyclic', G.Not(acyc))]
            sym = ['ValueError']
        except Exception as ex:   # any other exception is a violation
            outcome = 'raised ' + type(ex).__name__
            clauses = [('only ValueError may be raised', False)]
            sym = [type(ex).__name__]
        return PathResult(outcome, clauses, inputs=dict(A=rows, kind=kind), call='topological_ordering',
                          info=dict(result=sym), diff=(_real_topo, sym))
    return fn


def _np_matrix(inp):
    import numpy
    kind = inp.get('kind', 'real')
    if kind == 'int':
        return numpy.array([[int(unj(x)) for x in r] for r in inp['A']], dtype=int)
    return numpy.array(unj_float(inp['A']), dtype=float)


def _real_topo(inp):
    s = real_sempler()
    A = _np_matrix(inp)
    try:
        return ['ok', [int(x) for x in s.utils.topological_ordering(A)]]
    except ValueError:
        return ['ValueError']
    except Exception as ex:
        return [type(ex).__name__]


def h_isdag(kind):
    def fn(ctx):
        u = ctx.mod('sempler.utils')
        A, rows = _matrix(ctx, kind)
        nz = G.nz_matrix(rows)
        acyc = G.acyclic(nz)
        try:
            r = u.is_dag(A)
            r = bool(r)
            outcome = 'returned %s' % r
            clauses = [('is_dag(A) <=> acyclic', G.Iff(r, acyc))]
            sym = [r]
        except Exception as ex:
            outcome = 'raised ' + type(ex).__name__
            clauses = [('is_dag never raises', False)]
            sym = [type(ex).__name__]
        return PathResult(outcome, clauses, inputs=dict(A=rows, kind=kind), call='is_dag', info=dict(result=sym),
                          diff=(_real_isdag, sym))
    return fn


def _real_isdag(inp):
    s = real_sempler()
    try:
        return [bool(s.utils.is_dag(_np_matrix(inp)))]
    except Exception as ex:
        return [type(ex).__name__]


def h_ctor(which, kind='real'):
    def fn(ctx):
        e = ctx.eng
        A, rows = _matrix(ctx, kind)
        p = ctx.params['p']
        nz = G.nz_matrix(rows)
        acyc = G.acyclic(nz)
        try:
            if which == 'LGANM':
                m = ctx.mod('sempler.lganm')
                m.LGANM(A, np.zeros(p), np.ones(p))
            elif which == 'ANM':
                m = ctx.mod('sempler.anm')
                nm = ctx.mod('sempler.noise')
                m.ANM(A, [None] * p, [nm.normal(0, 1)] * p)
            else:
                m = ctx.mod('sempler.semi')
                data = [np.zeros((2, p))]
                m.BayesianNetwork(A, data)
            outcome = 'accepted'
            clauses = [('accepted => acyclic', acyc)]
            sym = ['accepted']
        except ValueError:
            outcome = 'raised ValueError'
            clauses = [('ValueError => not acyclic', G.Not(acyc))]
            sym = ['ValueError']
        except Exception as ex:
            outcome = 'raised ' + type(ex).__name__
            clauses = [('only ValueError may be raised', False)]
            sym = [type(ex).__name__]
        return PathResult(outcome, clauses, inputs=dict(A=rows, kind=kind), call='ctor:' + which, info=dict(result=sym),
                          diff=((lambda inp: _real_ctor(which, inp)) if which != 'BayesianNetwork' else None, sym)
                          if which != 'BayesianNetwork' else None)
    return fn


def _real_ctor(which, inp):
    import numpy
    s = real_sempler()
    A = _np_matrix(inp)
    p = len(A)
    try:
        if which == 'LGANM':
            s.LGANM(A, numpy.zeros(p), numpy.ones(p))
        elif which == 'ANM':
            s.ANM(A, [None] * p, [s.noise.normal(0, 1)] * p)
        else:
            from harness import realsemi
            realsemi.BayesianNetwork()(A, [numpy.zeros((2, p))])
        return ['accepted']
    except ValueError:
        return ['ValueError']
    except Exception as ex:
        return [type(ex).__name__]


def audit():
    """thorough tier: topological_ordering re-checked by CrossHair (its own symbolic floats and path exploration)
    on the real source through the same numpy shim; 2 x 2 and 3 x 3 matrices of arbitrary finite floats"""
    import os
    import subprocess
    import sys
    import time
    verif = os.path.dirname(os.path.dirname(os.path.abspath(__file__)))
    env = dict(os.environ)
    env['PYTHONPATH'] = os.path.join(verif, '.deps')
    t0 = time.time()
    try:
        r = subprocess.run([sys.executable, '-m', 'crosshair', 'check', '--report_all', '--per_condition_timeout', '300',
                            os.path.join(verif, 'audit', 'c03_crosshair.py')], capture_output=True, text=True, env=env, timeout=900, cwd=verif)
        out = (r.stdout + r.stderr).strip().splitlines()
    except subprocess.TimeoutExpired:
        return dict(engine='CrossHair', result='timeout (inconclusive audit)', disagreement=False, seconds=round(time.time() - t0, 1))
    lines = [l.split('c03_crosshair.py:')[-1] for l in out if 'c03_crosshair.py' in l]
    confirmed = sum(1 for l in lines if 'Confirmed over all paths' in l)
    notconf = sum(1 for l in lines if 'Not confirmed' in l)
    errors = [l for l in lines if ' error: ' in l]
    res = ('Confirmed over all paths for %d of 2 conditions; %d not confirmed (no counterexample within 300 s)' % (confirmed, notconf)) if not errors else 'counterexample reported'
    return dict(engine='CrossHair 0.0.110 (crosshair check --report_all --per_condition_timeout 300)', result=res, detail=lines,
                bounds='topological_ordering on 2 x 2 (4 symbolic floats) and 3 x 3 (9 symbolic floats) matrices, |w| < 1e6, no NaN',
                disagreement=bool(errors), seconds=round(time.time() - t0, 1))


def obligations(tier):
    ob = []
    exp = ('returned', 'raised ValueError')
    for p in (1, 2, 3):
        for kind in ('real', 'int'):
            ob.append(Obligation('topo_%s_p%d' % (kind, p), h_topo(kind), _cubes(p, 4 if p == 3 else 0),
                                 "topological_ordering on a fully symbolic %s %dx%d matrix" % (kind, p, p),
                                 expect=exp, weight=p))
            ob.append(Obligation('isdag_%s_p%d' % (kind, p), h_isdag(kind), _cubes(p, 4 if p == 3 else 0),
                                 "is_dag on a fully symbolic %s %dx%d matrix" % (kind, p, p),
                                 expect=('returned True', 'returned False'), weight=p))
    ctors = ['LGANM', 'ANM']
    if 'sempler.semi' in get_twin().modules:
        ctors.append('BayesianNetwork')
    for which in ctors:
        for p in (1, 2, 3):
            ob.append(Obligation('ctor_%s_p%d' % (which, p), h_ctor(which), _cubes(p, 4 if p == 3 else 0),
                                 "%s constructor on a fully symbolic Real %dx%d matrix" % (which, p, p),
                                 expect=('accepted', 'raised ValueError'), weight=p))
    ob.append(Obligation('topo_real_p4', h_topo('real'), _cubes(4, 6), "topological_ordering, symbolic Real 4x4",
                         expect=exp, weight=10))
    ob.append(Obligation('isdag_real_p4', h_isdag('real'), _cubes(4, 6), "is_dag, symbolic Real 4x4",
                         expect=('returned True', 'returned False'), weight=10))
    if tier == 'thorough':
        ob.append(Obligation('topo_int_p4', h_topo('int'), _cubes(4, 6), "topological_ordering, symbolic Int 4x4",
                             expect=exp, weight=10))
        for which in ctors:
            ob.append(Obligation('ctor_%s_p4' % which, h_ctor(which), _cubes(4, 6),
                                 "%s constructor, symbolic Real 4x4" % which,
                                 expect=('accepted', 'raised ValueError'), weight=10))
        ob.append(Obligation('topo_real_p5_sparse', h_topo('real'), _cubes(5, 8, dict(max_nz=7)),
                             "topological_ordering, symbolic Real 5x5 with at most 7 non-zero entries",
                             expect=exp, weight=30, timeout_ms=120000))
    return ob


# ---- replay on the real code, with an independent concrete oracle ------------

def replay(rec):
    inp = rec['inputs']
    A = _np_matrix(inp)
    p = len(A)
    nz = [[bool(A[i][j] != 0) for j in range(p)] for i in range(p)]
    acyc = G.c_is_acyclic(nz)
    call = rec['call']
    if call == 'topological_ordering':
        r = _real_topo(inp)
        if r[0] == 'ok':
            order = r[1]
            good = acyc and sorted(order) == list(range(p)) and all(
                order.index(i) < order.index(j) for i in range(p) for j in range(p) if nz[i][j])
            return (not good, "topological_ordering(%s) returned %s; graph acyclic=%s" % (A.tolist(), order, acyc))
        if r[0] == 'ValueError':
            return (acyc, "topological_ordering(%s) raised ValueError; graph acyclic=%s" % (A.tolist(), acyc))
        return (True, "topological_ordering(%s) raised %s" % (A.tolist(), r[0]))
    if call == 'is_dag':
        r = _real_isdag(inp)
        return (r[0] != acyc, "is_dag(%s) = %s; graph acyclic=%s" % (A.tolist(), r[0], acyc))
    if call.startswith('ctor:'):
        which = call.split(':')[1]
        r = _real_ctor(which, inp)
        if r[0] == 'accepted':
            return (not acyc, "%s(%s) accepted; acyclic=%s" % (which, A.tolist(), acyc))
        if r[0] == 'ValueError':
            return (acyc, "%s(%s) raised ValueError; acyclic=%s" % (which, A.tolist(), acyc))
        return (True, "%s(%s) raised %s" % (which, A.tolist(), r[0]))
    return (False, "unknown call %r" % call)
