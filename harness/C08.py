"""C08 -- The CPDAG is the essential graph of the equivalence class."""
import symnp as np
from harness.common import Obligation, PathResult
from harness import inputs as I
from harness.calllog import CallLog, real_replay
from oracles import graph as G
from oracles import classes as K

PID = 'C08'

META = dict(
    explanation="dag_to_cpdag (order_edges, label_edges, sort) is executed on every DAG pattern with symbolic real weights and "
                "as 0/1 int / float / bool matrices, and pdag_to_cpdag (pdag_to_dag + dag_to_cpdag) on every binary PDAG with acyclic "
                "directed part. The result is compared entry-wise with the essential graph computed from the definition: the "
                "union of all acyclic orientations of the skeleton with the same v-structures (edge directed iff all members "
                "agree). Because the oracle depends on the class only, equality for every member also shows that the CPDAG is "
                "the same for all members of a class.",
    bounds=dict(quick="DAGs p <= 4 (543 patterns, weighted + 0/1 int + 0/1 float); PDAGs p <= 3 all and p = 4 with <= 4 edges; wide: all 4-node DAG patterns / 3-node PDAGs embedded at nodes 8,1,9,0 of a 12-node graph",
                thorough="DAGs p = 5 (29,281 patterns); PDAGs p = 4 all (3,608)"),
    outside=["p > 5", "PDAGs on 5 nodes"],
    stubs=["numpy -> symnp"],
    assumptions=["z3 sound; symnp agrees with numpy (validated per path against the real library)"],
)


def _cmp_matrix(cl, name, r, want, p):
    if r[0] != 'ok':
        cl.append((name + ' must not raise', False))
        return
    M = r[1]
    good = hasattr(M, 'shape') and M.shape == (p, p)
    cl.append((name + ' shape', good))
    if good:
        got = K.as_tuple(M)
        cl.append((name + ' is the essential graph (0/1 entries, directed iff all members agree)',
                   all(got[i][j] == want[i][j] for i in range(p) for j in range(p))))


def h_dag(ctx):
    u = ctx.mod('sempler.utils')
    p = ctx.params['p']
    rows, pat = I.weighted_dag(ctx)
    M = I.arr(rows, 'float')
    M.buf.frozen = True
    cls = K.mec(pat)
    want = K.union_graph(cls, p)
    log = CallLog('sempler.utils')
    cl = []
    _cmp_matrix(cl, 'dag_to_cpdag(weighted)', log.call(u, 'dag_to_cpdag', M), want, p)
    for dt in ('int', 'float', 'bool'):
        _cmp_matrix(cl, 'dag_to_cpdag(0/1 %s)' % dt, log.call(u, 'dag_to_cpdag', I.arr(pat, dt)), want, p)
    return PathResult('checked', cl, inputs=dict(calls=log.inputs(), A=rows), call='dag',
                      info=dict(pattern=[list(r) for r in pat], class_size=len(cls)),
                      diff=(real_replay('sempler.utils'), log.symbolic()))


def h_pdag(ctx):
    u = ctx.mod('sempler.utils')
    p = ctx.params['p']
    pat = I.binary_pdag(ctx)
    P = I.arr(pat, 'int')
    P.buf.frozen = True
    E = K.extensions(pat)
    log = CallLog('sempler.utils')
    cl = []
    r = log.call(u, 'pdag_to_cpdag', P)
    if not E:
        cl.append(('pdag_to_cpdag raises ValueError when no consistent extension exists', r == ('exc', 'ValueError')))
    else:
        want = K.union_graph(K.mec(E[0]), p)
        _cmp_matrix(cl, 'pdag_to_cpdag', r, want, p)
    return PathResult('has extension' if E else 'no extension', cl,
                      inputs=dict(calls=log.inputs(), P=[list(r) for r in pat]), call='pdag',
                      info=dict(pattern=[list(r) for r in pat], extensions=len(E)),
                      diff=(real_replay('sempler.utils'), log.symbolic()))


def obligations(tier):
    ob = []
    for p in (1, 2, 3):
        ob.append(Obligation('dag_p%d' % p, h_dag, I.dag_pair_cubes(p, 2 if p == 3 else 0),
                             "dag_to_cpdag on every DAG pattern on %d nodes (symbolic weights, 0/1 int, 0/1 float)" % p,
                             expect=('checked',), weight=p))
        ob.append(Obligation('pdag_p%d' % p, h_pdag, I.pair_cubes(p, 2 if p == 3 else 0),
                             "pdag_to_cpdag on every binary PDAG on %d nodes" % p, expect=('has extension',), weight=p))
    ob.append(Obligation('dag_p4', h_dag, I.dag_pair_cubes(4, 3), "dag_to_cpdag on every DAG pattern on 4 nodes",
                         expect=('checked',), weight=30))
    ob.append(Obligation('dag_wide_p12', h_dag, I.embed_cubes(12, [11, 1, 9, 0], 3, dag=True),
                         "dag_to_cpdag on every 4-node DAG pattern embedded at nodes 11, 1, 9, 0 of a 12-node graph (large / unordered labels)",
                         expect=('checked',), weight=60))
    ob.append(Obligation('pdag_wide_p12', h_pdag, I.embed_cubes(12, [11, 1, 9], 1),
                         "pdag_to_cpdag on every 3-node binary PDAG embedded at nodes 11, 1, 9 of a 12-node graph",
                         expect=('has extension',), weight=20))
    if tier == 'quick':
        ob.append(Obligation('pdag_p4_le4', h_pdag, I.pair_cubes(4, 2, dict(max_edges=4)),
                             "pdag_to_cpdag on binary PDAGs on 4 nodes with <= 4 edges",
                             expect=('has extension', 'no extension'), weight=25))
    else:
        ob.append(Obligation('pdag_p4', h_pdag, I.pair_cubes(4, 3), "pdag_to_cpdag on every binary PDAG on 4 nodes",
                             expect=('has extension', 'no extension'), weight=60))
        ob.append(Obligation('dag_p5', h_dag, I.dag_pair_cubes(5, 4), "dag_to_cpdag on every DAG pattern on 5 nodes",
                             expect=('checked',), weight=100, timeout_ms=120000))
    return ob


def replay(rec):
    import numpy
    from harness.common import real_sempler, unj_float
    s = real_sempler()
    u = s.utils
    inp = rec['inputs']
    bad = []
    try:
        if rec['call'] == 'dag':
            A = numpy.array(unj_float(inp['A']), dtype=float)
            p = len(A)
            pat = tuple(tuple(1 if A[i][j] != 0 else 0 for j in range(p)) for i in range(p))
            want = K.union_graph(K.mec(pat), p)
            for arg in (A, numpy.array(pat, dtype=int), numpy.array(pat, dtype=float), numpy.array(pat, dtype=bool)):
                got = u.dag_to_cpdag(arg.copy())
                if got.shape != (p, p) or any(got[i][j] != want[i][j] for i in range(p) for j in range(p)):
                    bad.append('dag_to_cpdag(%s) = %s, essential graph is %s' % (arg.tolist(), got.tolist(), [list(r) for r in want]))
        else:
            P = numpy.array(inp['P'], dtype=int)
            p = len(P)
            pat = tuple(tuple(int(x) for x in r) for r in P.tolist())
            E = K.extensions(pat)
            try:
                got = u.pdag_to_cpdag(P.copy())
                if not E:
                    bad.append('pdag_to_cpdag(%s) returned although no consistent extension exists' % (P.tolist(),))
                else:
                    want = K.union_graph(K.mec(E[0]), p)
                    if got.shape != (p, p) or any(got[i][j] != want[i][j] for i in range(p) for j in range(p)):
                        bad.append('pdag_to_cpdag(%s) = %s, essential graph is %s' % (P.tolist(), got.tolist(), [list(r) for r in want]))
            except ValueError:
                if E:
                    bad.append('pdag_to_cpdag(%s) raised ValueError although %d extensions exist' % (P.tolist(), len(E)))
    except Exception as ex:
        bad.append('raised %s: %s' % (type(ex).__name__, ex))
    return (len(bad) > 0, '; '.join(bad[:3]) or 'definitions satisfied')
