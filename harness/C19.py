"""C19 -- Semi-synthetic samples factorise according to the given graph."""
import itertools
from fractions import Fraction
import z3
import symnp as np
from symx.core import SV, SB
from harness.common import Obligation, PathResult, unj, unj_float
from harness import inputs as I
from oracles import graph as G

PID = 'C19'

META = dict(
    explanation="sempler.semi (BayesianNetwork, DRFNet.__init__/sample, _bootstrap) and the bundled wrapper drf/code.py (drf.fit, drf.predict "
                "with functional='sample', convert_to_df) are executed on every DAG pattern with symbolic weights, 1-2 environments of 2-3 "
                "rows of symbolic values, n = None / int / per-environment list and a symbolic seed. Environment stubs: rpy2 + the R "
                "packages (the forest returns, for every query row, an arbitrary probability vector over the training rows - an "
                "uninterpreted function of the fit and the query values), pandas.DataFrame (thin wrapper), numpy.random (contract "
                "stubs: choice(p=w) = any index with w > 0). z3 decides per path: one array per environment with the requested rows x p; "
                "every entry equals a training value of the same variable and environment; exactly one forest per (non-source variable, "
                "environment), fitted on that environment's column i against its parents' columns in increasing index; every non-source "
                "value is the response of the training row drawn with the weights the forest of (i, k) returned for THIS row's synthetic "
                "parent values (sorted parents); a second seeded call from an unrelated generator state is term-equal (seed 0 included); "
                "reachability: two different source variables can receive different bootstrap rows; argument contract (TypeError / "
                "ValueError as documented) with symbolic n.",
    bounds=dict(quick="p <= 2 all DAG patterns x {1 environment of 2 rows, 2 environments of 2 rows} x n in {None, int 1..2, list [1,2]}; p = 3 all patterns with 1 environment of 2 rows, n = 1; argument contract p = 2; wide graphs: p = 10 with one child of two parents at all positions",
                thorough="p <= 2 also with 3 training rows / environments of (2,3) rows; p = 3 with 1-2 environments of 2 rows and n <= 2"),
    outside=["everything inside R (the forest itself)", "pandas proper", "functional other than 'sample'", "p > 3, more than 3 training rows"],
    stubs=["numpy -> symnp", "pandas -> stubs/sympandas.py", "rpy2 + R packages base/drf -> stubs/fake_rpy2.py (nondeterministic forest weights)",
           "numpy.random -> contract stubs"],
    assumptions=["z3 sound", "the R forest returns non-negative weights over the training rows that sum to 1"],
)


def _data(e, envs, p):
    return [[[e.real('d%d_%d_%d' % (k, r, i)) for i in range(p)] for r in range(N)] for k, N in enumerate(envs)]


def _term_eq_arr(a, rows):
    """shim array a term-equal to nested list rows"""
    if a.shape != (len(rows), len(rows[0]) if rows else a.shape[1]):
        return False
    return G.And([G.T(a[r, c] == rows[r][c]) for r in range(len(rows)) for c in range(len(rows[0]))])


def h_sample(ctx):
    from stubs import fake_rpy2
    e = ctx.eng
    P = ctx.params
    p, envs, nmode = P['p'], P['envs'], P['nmode']
    semi = ctx.mod('sempler.semi')
    fake_rpy2.reset()
    rows, pat = I.weighted_dag(ctx)
    parents = [sorted(j for j in range(p) if pat[j][i]) for i in range(p)]
    data = _data(e, envs, p)
    seed = e.int('seed')
    e.assume(seed >= 0)
    e.assume(seed < 2 ** 32)
    if nmode == 'none':
        n, want = None, list(envs)
    elif nmode == 'int':
        nn = e.int('n')
        e.assume(nn >= 1)
        e.assume(nn <= P.get('nmax', 2))
        nv = int(nn)
        n, want = nv, [nv] * len(envs)
    else:
        want = [1 + (k % 2) for k in range(len(envs))]
        n = list(want)
    cl = []
    reach = []
    info = dict(pattern=[list(r) for r in pat], envs=envs, nmode=nmode)
    try:
        graph = np.array(rows, dtype=float)
        graph.buf.frozen = True
        arrs = [np.array(d, dtype=float) for d in data]
        for a in arrs:
            a.buf.frozen = True
        net = semi.DRFNet(graph, list(arrs))
        cl.append(('the network keeps no reference to the caller\'s graph / data arrays (later changes by the caller cannot affect it)',
                   not any(a.buf is b.buf for a in [net.graph] + list(net._data) for b in [graph] + arrs)))
        nfit = len(fake_rpy2.FITS)
        nonsrc = [i for i in range(p) if parents[i]]
        cl.append(('one forest per (non-source variable, environment)', nfit == len(nonsrc) * len(envs)))
        fitof = {}
        for i in nonsrc:
            for k in range(len(envs)):
                match = []
                for f in fake_rpy2.FITS:
                    okY = f['Y'].shape == (envs[k], 1) and G.Z(_term_eq_arr(f['Y'], [[data[k][r][i]] for r in range(envs[k])]))
                    okX = f['X'].shape == (envs[k], len(parents[i])) and G.Z(_term_eq_arr(f['X'], [[data[k][r][c] for c in parents[i]] for r in range(envs[k])]))
                    if okY is not False and okX is not False:
                        if e.prove(G.Z(G.And(okY, okX))) is None:
                            match.append(f['id'])
                cl.append(('variable %d, environment %d: one forest fitted on this environment, response column %d, parent columns %s in increasing order' % (i, k, i, parents[i]),
                           len(match) == 1))
                if len(match) == 1:
                    fitof[(i, k)] = match[0]
        k0 = len(np.random.LOG)
        out = net.sample(n, random_state=seed)
        log1 = np.random.LOG[k0:]
        outcome = 'returned'
        ok = isinstance(out, list) and len(out) == len(envs) and all(isinstance(o, np.ndarray) and o.shape == (want[k], p) for k, o in enumerate(out))
        cl.append(('one array per environment with the requested number of rows and one column per variable', ok))
        if ok:
            for k in range(len(envs)):
                for i in range(p):
                    for r in range(want[k]):
                        cl.append(('env %d row %d variable %d is a value observed for that variable in that environment' % (k, r, i),
                                   G.Or([G.T(out[k][r, i] == data[k][t][i]) for t in range(envs[k])])))
            # Markov factorisation through the forest queries
            choices = [rc for rc in log1 if rc['op'] == 'choice']
            used = set()
            for (i, k), fid in fitof.items():
                preds = [pr for pr in fake_rpy2.PREDICTS if pr['fit'] == fid]
                good = None
                for pr in preds:
                    if pr['newdata'].shape == (want[k], len(parents[i])):
                        t = _term_eq_arr(pr['newdata'], [[out[k][r, c] for c in parents[i]] for r in range(want[k])])
                        if t is not False and e.prove(G.Z(t)) is None:
                            good = pr
                            break
                cl.append(('variable %d, environment %d: its forest is queried with the synthetic values of exactly its parents %s' % (i, k, parents[i]), good is not None))
                if good is not None:
                    W = good['weights']
                    Y = fake_rpy2.FITS[fid]['Y']
                    for r in range(want[k]):
                        # the draw made with this row's weights
                        hit = None
                        for ci, rc in enumerate(choices):
                            if ci in used or rc['p'] is None or len(rc['p']) != W.shape[1]:
                                continue
                            if all((a is b) or (G.T(a == b) is True) for a, b in zip(rc['p'], [W[r, t] for t in range(W.shape[1])])):
                                hit = ci
                                break
                        if hit is None:
                            cl.append(('variable %d, env %d, row %d is drawn with the weights its forest returned for this row' % (i, k, r), False))
                            continue
                        used.add(hit)
                        pos = choices[hit]['pos'][0]
                        cl.append(('variable %d, env %d, row %d equals the response of the training row drawn by its forest' % (i, k, r),
                                   G.And([G.Implies(G.T(pos == t), G.T(out[k][r, i] == Y[t, 0])) for t in range(Y.shape[0])])))
            cl.append(('no other draws from the global generator than one per (row, non-source variable)',
                       len(choices) == sum(want[k] for k in range(len(envs))) * len(nonsrc)))
            # sources: bootstrap rows
            boots = [rc for rc in log1 if rc['op'] == 'gchoice']
            src = [i for i in range(p) if not parents[i]]
            cl.append(('one bootstrap draw per (source variable, environment)', len(boots) == len(src) * len(envs)))
            if len(src) >= 2 and len(boots) >= 2:
                reach.append(('two source variables can receive different bootstrap rows',
                              G.Z(G.Or([G.T(a != b) for a, b in zip(boots[0]['pos'], boots[1]['pos'])]))))
            # reproducibility: second seeded call from an unrelated state of the global generator
            np.random.set_global_state('Gother')
            out2 = net.sample(n, random_state=seed)
            ok2 = isinstance(out2, list) and len(out2) == len(out) and all(a.shape == b.shape for a, b in zip(out, out2))
            cl.append(('a second call with the same random_state returns the same sample',
                       G.And([G.T(out[k][r, i] == out2[k][r, i]) for k in range(len(envs)) for r in range(want[k]) for i in range(p)]) if ok2 else False))
    except np.FrozenWrite as ex:
        outcome = 'wrote to the input'
        cl.append(('graph and data are not modified', False))
    except Exception as ex:
        outcome = 'raised ' + type(ex).__name__
        cl.append(('fitting / sampling with valid arguments must not raise (%s: %s)' % (type(ex).__name__, str(ex)[:100]), False))
    inputs = dict(graph=rows, data=data, n=n, seed=seed)
    return PathResult(outcome, cl, inputs=inputs, call='sample', info=info, reach=reach)


def h_wide(ctx):
    """many variables: one child with two parents at arbitrary (symbolic) positions; one training row per
    environment, so nothing forks inside the sampler and the column ORDER of fit and query is what is checked"""
    from stubs import fake_rpy2
    e = ctx.eng
    p = ctx.params['p']
    semi = ctx.mod('sempler.semi')
    fake_rpy2.reset()
    a, b, c = e.int('pa1'), e.int('pa2'), e.int('child')
    for v in (a, b, c):
        e.assume(v >= 0)
        e.assume(v < p)
    e.assume(a < b)
    e.assume(c != a)
    e.assume(c != b)
    ai, bi, ci = int(a), int(b), int(c)
    w1, w2 = e.real('w1'), e.real('w2')
    e.assume(w1 != 0)
    e.assume(w2 != 0)
    rows = [[0.0] * p for _ in range(p)]
    rows[ai][ci] = w1
    rows[bi][ci] = w2
    data = _data(e, [1], p)
    cl = []
    try:
        net = semi.DRFNet(np.array(rows, dtype=float), [np.array(data[0], dtype=float)])
        cl.append(('one forest', len(fake_rpy2.FITS) == 1))
        if len(fake_rpy2.FITS) == 1:
            f = fake_rpy2.FITS[0]
            cl.append(('the forest is fitted on the parents\' columns in increasing index order', f['X'].shape == (1, 2) and
                       G.And(G.T(f['X'][0, 0] == data[0][0][ai]), G.T(f['X'][0, 1] == data[0][0][bi]))))
        out = net.sample(1, random_state=1)
        pr = [q for q in fake_rpy2.PREDICTS]
        cl.append(('one forest query', len(pr) == 1))
        if len(pr) == 1:
            nd = pr[0]['newdata']
            cl.append(('the forest is queried with the synthetic parent values in increasing index order', nd.shape == (1, 2) and
                       G.And(G.T(nd[0, 0] == out[0][0, ai]), G.T(nd[0, 1] == out[0][0, bi]))))
        outcome = 'returned'
    except Exception as ex:
        outcome = 'raised ' + type(ex).__name__
        cl.append(('fitting / sampling must not raise (%s: %s)' % (type(ex).__name__, str(ex)[:100]), False))
    return PathResult(outcome, cl, inputs=dict(graph=rows, data=data, n=1, seed=1), call='sample', info=dict(p=p, parents=[ai, bi], child=ci))


CONTRACT = ['graph_list', 'graph_1d', 'graph_cyclic', 'data_not_list', 'data_elem_list', 'data_1d', 'data_cols',
            'n_float', 'n_str', 'n_int', 'n_list', 'n_list_len', 'n_list_float']


def h_contract(ctx):
    e = ctx.eng
    case = ctx.params['case']
    semi = ctx.mod('sempler.semi')
    from stubs import fake_rpy2
    fake_rpy2.reset()
    p = 2
    w = e.real('w')
    e.assume(w != 0)
    data = _data(e, [2, 2], p)
    arrs = [np.array(d, dtype=float) for d in data]
    graph = np.array([[0.0, w], [0.0, 0.0]], dtype=float)
    expect = None
    cl = []
    nsym = None

    def build():
        return semi.DRFNet(graph, list(arrs))
    try:
        if case == 'graph_list':
            expect = 'TypeError'
            semi.DRFNet([[0.0, 1.0], [0.0, 0.0]], list(arrs))
        elif case == 'graph_1d':
            expect = 'ValueError'
            semi.DRFNet(np.array([0.0, w], dtype=float), list(arrs))
        elif case == 'graph_cyclic':
            expect = 'ValueError'
            w2 = e.real('w2')
            e.assume(w2 != 0)
            semi.DRFNet(np.array([[0.0, w], [w2, 0.0]], dtype=float), list(arrs))
        elif case == 'data_not_list':
            expect = 'TypeError'
            semi.DRFNet(graph, arrs[0])
        elif case == 'data_elem_list':
            expect = 'TypeError'
            semi.DRFNet(graph, [arrs[0], data[1]])
        elif case == 'data_1d':
            expect = 'ValueError'
            semi.DRFNet(graph, [arrs[0], np.array(data[1][0], dtype=float)])
        elif case == 'data_cols':
            expect = 'ValueError'
            semi.DRFNet(graph, [arrs[0], np.array([r + [r[0]] for r in data[1]], dtype=float)])
        else:
            net = build()
            if case == 'n_float':
                expect = 'TypeError'
                net.sample(1.5)
            elif case == 'n_str':
                expect = 'TypeError'
                net.sample('3')
            elif case == 'n_int':
                nsym = e.int('n')
                e.assume(nsym >= -2)
                e.assume(nsym <= 2)
                nv = int(nsym)
                expect = 'ValueError' if nv <= 0 else None
                out = net.sample(nv, random_state=1)
                cl.append(('valid n is accepted', len(out) == 2 and out[0].shape == (nv, p)))
            elif case == 'n_list':
                a, b = e.int('n0'), e.int('n1')
                for v in (a, b):
                    e.assume(v >= -1)
                    e.assume(v <= 2)
                av, bv = int(a), int(b)
                nsym = [a, b]
                expect = 'ValueError' if (av <= 0 or bv <= 0) else None
                out = net.sample([av, bv], random_state=1)
                cl.append(('valid per-environment list is accepted', len(out) == 2 and out[0].shape == (av, p) and out[1].shape == (bv, p)))
            elif case == 'n_list_len':
                L = e.int('len')
                e.assume(L >= 0)
                e.assume(L <= 4)
                Lv = int(L)
                nsym = Lv
                expect = 'ValueError' if Lv != 2 else None
                net.sample([1] * Lv, random_state=1)
            elif case == 'n_list_float':
                expect = 'TypeError'
                net.sample([1, 1.0])
        outcome = 'returned'
        cl.append(('%s: the documented %s is raised' % (case, expect), expect is None))
    except (TypeError, ValueError) as ex:
        outcome = 'raised ' + type(ex).__name__
        cl.append(('%s: %s raised, documented: %s' % (case, type(ex).__name__, expect), type(ex).__name__ == expect))
    except Exception as ex:
        outcome = 'raised ' + type(ex).__name__
        cl.append(('%s: only TypeError / ValueError are documented (%s: %s)' % (case, type(ex).__name__, str(ex)[:80]), False))
    return PathResult(outcome, cl, inputs=dict(case=case, n=nsym), call='contract', info=dict(case=case))


# ---- replay on the real sempler.semi with a deterministic fake rpy2 ------------------------------------

_REAL = [None]


def _real_semi():
    if _REAL[0] is None:
        import io
        import contextlib
        from stubs import real_fake_rpy2 as R
        R.install()
        with contextlib.redirect_stdout(io.StringIO()):
            import sempler
            import sempler.semi
        _REAL[0] = (sempler.semi, R)
    return _REAL[0]


def _real_check(graph, data, n, seed):
    """concrete oracle on the real code: list of problems"""
    import numpy
    semi, R = _real_semi()
    bad = []
    R.reset()
    p = graph.shape[1]
    pat = graph != 0
    parents = [sorted(int(j) for j in numpy.flatnonzero(pat[:, i])) for i in range(p)]
    g0, d0 = graph.copy(), [d.copy() for d in data]
    net = semi.DRFNet(graph, data)
    e = len(data)
    nonsrc = [i for i in range(p) if parents[i]]
    if len(R.FITS) != len(nonsrc) * e:
        bad.append('%d forests fitted, expected %d' % (len(R.FITS), len(nonsrc) * e))
    fitof = {}
    for i in nonsrc:
        for k in range(e):
            m = [f['id'] for f in R.FITS if f['Y'].shape == (len(data[k]), 1) and numpy.array_equal(f['Y'][:, 0], data[k][:, i])
                 and f['X'].shape == (len(data[k]), len(parents[i])) and numpy.array_equal(f['X'], data[k][:, parents[i]])]
            if len(m) != 1:
                bad.append('variable %d env %d: no forest fitted on (column %d | columns %s) of that environment' % (i, k, i, parents[i]))
            else:
                fitof[(i, k)] = m[0]
    want = [len(d) for d in data] if n is None else ([n] * e if isinstance(n, int) else list(n))
    numpy.random.seed(4242)
    draws = []
    orig_choice = numpy.random.choice

    def logging_choice(a, size=None, replace=True, p=None):
        res = orig_choice(a, size, replace, p)
        draws.append((len(R.PREDICTS) - 1, int(numpy.asarray(res).ravel()[0])))
        return res
    numpy.random.choice = logging_choice
    try:
        out = net.sample(n, random_state=seed)
    finally:
        numpy.random.choice = orig_choice
    preds = list(R.PREDICTS)
    if len(out) != e or any(o.shape != (want[k], p) for k, o in enumerate(out)):
        bad.append('shapes %s, expected %s x %d' % ([o.shape for o in out], want, p))
        return bad
    for k in range(e):
        for i in range(p):
            if not numpy.isin(out[k][:, i], data[k][:, i]).all():
                bad.append('env %d variable %d takes values never observed for it in that environment' % (k, i))
    for (i, k), fid in fitof.items():
        pr = [q for q in preds if q['fit'] == fid]
        if not any(q['newdata'].shape == (want[k], len(parents[i])) and numpy.array_equal(q['newdata'], out[k][:, parents[i]]) for q in pr):
            bad.append('variable %d env %d: its forest was not queried with the synthetic values of its parents %s' % (i, k, parents[i]))
        for qi, q in enumerate(preds):
            if q['fit'] != fid or q['newdata'].shape[0] != want[k]:
                continue
            ids = [d[1] for d in draws if d[0] == qi]
            Y = R.FITS[fid]['Y']
            if len(ids) == want[k] and any(out[k][r, i] != Y[ids[r], 0] for r in range(want[k])):
                bad.append('variable %d env %d: a value is not the response of the training row drawn with its row\'s forest weights' % (i, k))
    if any(numpy.shares_memory(a, b) for a in [net.graph] + list(net._data) for b in [graph] + list(data)):
        bad.append('the network shares memory with the caller\'s graph / data')
    # reproducibility, with other sampling in between
    numpy.random.seed(99)
    numpy.random.normal(size=5)
    out2 = net.sample(n, random_state=seed)
    if any(not numpy.array_equal(a, b) for a, b in zip(out, out2)):
        bad.append('two calls with random_state=%d differ' % seed)
    if not numpy.array_equal(g0, graph) or any(not numpy.array_equal(a, b) for a, b in zip(d0, data)):
        bad.append('inputs modified')
    return bad


def replay(rec):
    import numpy
    semi, R = _real_semi()
    if rec['call'] == 'reach':
        return _replay_reach(rec)
    inp = rec['inputs']
    if rec['call'] == 'contract':
        return _replay_contract(inp)
    graph = numpy.array(unj_float(inp['graph']), dtype=float)
    data = [numpy.array(unj_float(d), dtype=float) for d in inp['data']]
    # make the training values distinct (the solver's model may repeat values; identification of rows needs distinct ones)
    for k, d in enumerate(data):
        data[k] = d + numpy.arange(d.size).reshape(d.shape) * 0.0137 * (1 + k)
    n = inp['n']
    if isinstance(n, list):
        n = [int(unj(x)) for x in n]
    elif n is not None:
        n = int(unj(n))
    seed = int(unj(inp['seed'])) % (2 ** 32)
    try:
        bad = _real_check(graph, data, n, seed)
    except Exception as ex:
        bad = ['raised %s: %s' % (type(ex).__name__, ex)]
    return (len(bad) > 0, 'DRFNet(graph=%s, %d environment(s)).sample(n=%s, random_state=%d) with a deterministic stand-in forest: %s' % (
        graph.tolist(), len(data), n, seed, '; '.join(bad[:3]) or 'as specified'))


def _replay_contract(inp):
    import numpy
    semi, R = _real_semi()
    case = inp['case']
    g = numpy.array([[0.0, 1.0], [0.0, 0.0]])
    d = [numpy.arange(4.0).reshape(2, 2), numpy.arange(4.0).reshape(2, 2) + 7]
    exp = None
    try:
        if case == 'graph_list':
            exp = 'TypeError'; semi.DRFNet(g.tolist(), d)
        elif case == 'graph_1d':
            exp = 'ValueError'; semi.DRFNet(g[0], d)
        elif case == 'graph_cyclic':
            exp = 'ValueError'; semi.DRFNet(numpy.array([[0, 1.0], [-1.0, 0]]), d)
        elif case == 'data_not_list':
            exp = 'TypeError'; semi.DRFNet(g, d[0])
        elif case == 'data_elem_list':
            exp = 'TypeError'; semi.DRFNet(g, [d[0], d[1].tolist()])
        elif case == 'data_1d':
            exp = 'ValueError'; semi.DRFNet(g, [d[0], d[1][0]])
        elif case == 'data_cols':
            exp = 'ValueError'; semi.DRFNet(g, [d[0], numpy.ones((2, 3))])
        else:
            net = semi.DRFNet(g, d)
            if case == 'n_float':
                exp = 'TypeError'; net.sample(1.5)
            elif case == 'n_str':
                exp = 'TypeError'; net.sample('3')
            elif case == 'n_int':
                nv = int(unj(inp['n'])); exp = 'ValueError' if nv <= 0 else None; net.sample(nv, random_state=1)
            elif case == 'n_list':
                nl = [int(unj(x)) for x in inp['n']]; exp = 'ValueError' if min(nl) <= 0 else None; net.sample(nl, random_state=1)
            elif case == 'n_list_len':
                L = int(unj(inp['n'])); exp = 'ValueError' if L != 2 else None; net.sample([1] * L, random_state=1)
            elif case == 'n_list_float':
                exp = 'TypeError'; net.sample([1, 1.0])
        got = None
    except Exception as ex:
        got = type(ex).__name__
    return (got != exp, 'contract case %s (n=%s): raised %s, documented %s' % (case, inp.get('n'), got, exp))


def _replay_reach(rec):
    import numpy
    semi, R = _real_semi()
    g = numpy.zeros((3, 3))
    g[0, 2] = 1
    rng = numpy.random.default_rng(3)
    d = [rng.uniform(size=(6, 3))]
    net = semi.DRFNet(g, d)
    differ = False
    for sd in range(20):
        out = net.sample(6, random_state=sd)[0]
        i0 = [int(numpy.flatnonzero(d[0][:, 0] == v)[0]) for v in out[:, 0]]
        i1 = [int(numpy.flatnonzero(d[0][:, 1] == v)[0]) for v in out[:, 1]]
        differ |= (i0 != i1)
    return (not differ, 'over 20 seeds the two source variables %s bootstrap rows' % ('received different' if differ else 'ALWAYS received identical'))


def obligations(tier):
    q = tier == 'quick'
    ob = []
    for p in (1, 2):
        cubes = []
        for c in I.dag_pair_cubes(p, 0):
            for envs in (([2], [2, 2]) if q else ([2], [2, 2], [3], [2, 3])):
                for nm in ('none', 'int', 'list'):
                    if nm == 'none' and max(envs) > 2:
                        continue
                    cubes.append(dict(c, envs=envs, nmode=nm))
        ob.append(Obligation('sample_p%d' % p, h_sample, cubes, "DRFNet fit + sample on every DAG pattern on %d node(s), 1-2 environments, n None / int / list" % p,
                             expect=('returned',), reach_expect=(('two source variables can receive different bootstrap rows',) if p == 2 else ()), weight=5 * p))
    if q:
        c3 = [dict(c, envs=[2], nmode='int', nmax=1) for c in I.dag_pair_cubes(3, 3)]
        d3 = "3 nodes, one environment of 2 rows, n = 1"
    else:
        c3 = [dict(c, envs=envs, nmode=nm) for c in I.dag_pair_cubes(3, 3) for envs in ([2], [2, 2]) for nm in ('int', 'none')]
        d3 = "3 nodes, 1-2 environments of 2 rows, n <= 2"
    ob.append(Obligation('sample_p3', h_sample, c3, "DRFNet fit + sample on every DAG pattern on " + d3, expect=('returned',),
                         reach_expect=('two source variables can receive different bootstrap rows',), weight=100, timeout_ms=120000))
    pw = 10 if q else 12
    ob.append(Obligation('sample_wide_p%d' % pw, h_wide, [dict(p=pw)], "%d variables, one child with two parents at arbitrary positions (column order of fit and query)" % pw,
                         expect=('returned',), weight=20))
    ob.append(Obligation('contract', h_contract, [dict(case=c) for c in CONTRACT], "documented TypeError / ValueError for invalid graph, data and n (symbolic n)",
                         expect=('raised TypeError', 'raised ValueError', 'returned'), weight=1))
    return ob
