"""C04 -- Finite samples follow the population law."""
import itertools
from fractions import Fraction
import symnp as np
from symx.core import SV, SB, linear_coeffs, atom_index
from harness.common import Obligation, PathResult, real_sempler, unj, unj_float
from harness import inputs as I
from harness import scm_inputs as SI
from oracles import graph as G
from oracles import scm

PID = 'C04'

META = dict(
    explanation="NormalDistribution.sample, LGANM.sample(population=False) and ANM.sample (linear assignments X @ w built from the same "
                "weights, the library's noise.normal) are executed with symbolic weights (any sign), means, variances >= 0, intervention "
                "assignments / parameters and seed. numpy's generators are contract stubs: multivariate_normal(m, C, n) returns rows "
                "m + L z_r with an unknown factor L constrained only by L L^T = C (a hypothesis of every property query) and fresh "
                "standard-normal variates z_r per row; normal(loc, scale, n) = loc + scale * z. A sample is therefore a symbolic affine "
                "function of primitive variates and 'has the population law' is algebra decided by z3: the array is n x p; row r "
                "depends on the variates of row r only (independent rows) with the same coefficients B for every row (identically "
                "distributed); the intercept equals the population mean and B B^T the population covariance returned by "
                "sample(population=True) for the same arguments (and for ANM: by the LGANM with the same weights, noise means and "
                "variances under the same interventions, standard deviation s >= 0 with s*s = variance); a variable whose population "
                "variance is 0 equals its mean in every row (sum of squares = 0).",
    bounds=dict(quick="NormalDistribution p <= 3; LGANM p <= 2 all intervention assignments and p = 3 with at most 1 intervened variable; ANM vs LGANM p <= 2 all assignments without shift+noise overlap, p = 3 with at most 1 intervened variable; n in {1, 2} (n = 0 for shapes)",
                thorough="LGANM and ANM p = 3 with at most 2 intervened variables; n = 3"),
    outside=["that numpy's generators realise the contract (so the 1/sqrt(n) rate is a consequence of i.i.d. rows with the right law, not measured)", "SVD rounding inside multivariate_normal", "targets that are both shift- and noise-intervened in the ANM/LGANM comparison", "p > 3"],
    stubs=["numpy -> symnp", "numpy.random.multivariate_normal / normal -> contract stubs", "numpy.linalg.inv -> exact contract stub"],
    assumptions=["z3 sound (QF_NRA)", "multivariate_normal(m, C) has law N(m, C) with independent rows; normal(loc, scale) = loc + scale * N(0,1)"],
)

KINDS_L = ['none', 'do', 'noise', 'shift', 'do+noise', 'do+shift', 'noise+shift', 'do+noise+shift']
KINDS_A = ['none', 'do', 'noise', 'shift', 'do+noise', 'do+shift']


def _law_clauses(cl, X, n, p, zrows, mean, cov, what):
    """X: n x p shim array; zrows[r]: the variate atoms (SV) of row r; mean/cov: population terms"""
    if len(zrows) != n:
        cl.append(('%s: one set of fresh variates per row (%d rows, %d sets of variates)' % (what, n, len(zrows)), False))
        return
    allidx = [atom_index(z) for zr in zrows for z in zr]
    if any(i is None for i in allidx):
        cl.append(('%s: variates are primitive draws' % what, False))
        return
    B0 = None
    for r in range(n):
        idx_r = [atom_index(z) for z in zrows[r]]
        rowB = []
        for i in range(p):
            dec = linear_coeffs(X[r, i], allidx)
            if dec is None:
                cl.append(('%s: entry (%d,%d) is affine in the primitive variates' % (what, r, i), False))
                return
            c0, co = dec
            others = [co[k] for k in allidx if k not in idx_r]
            cl.append(('%s: row %d variable %d depends on the variates of its own row only (independent rows)' % (what, r, i),
                       G.And([G.T(c == 0) for c in others])))
            cl.append(('%s: row %d variable %d has the population mean as location' % (what, r, i), G.T(c0 == mean[i])))
            rowB.append([co[k] for k in idx_r])
        if B0 is None:
            B0 = rowB
            for i in range(p):
                for k in range(i, p):
                    s = 0
                    for a, b in zip(rowB[i], rowB[k]):
                        s = s + a * b
                    cl.append(('%s: B B^T equals the population covariance (%d,%d)' % (what, i, k), G.T(s == cov[i][k])))
                # point mass: population variance 0 => the variable equals its mean in every row
                cl.append(('%s: variable %d with population variance 0 is reproduced as the constant mean' % (what, i),
                           G.Implies(G.T(cov[i][i] == 0), G.And([G.T(X[rr, i] == mean[i]) for rr in range(n)]))))
        else:
            cl.append(('%s: row %d has the same coefficients as row 0 (identically distributed rows)' % (what, r),
                       G.And([G.T(a == b) for i in range(p) for a, b in zip(rowB[i], B0[i])])))


def h_normal(ctx):
    e = ctx.eng
    nd = ctx.mod('sempler.normal_distribution')
    p, n = ctx.params['p'], ctx.params['n']
    dt = ctx.params.get('dtype', 'float')
    mk = e.real if dt == 'float' else e.int
    mean = [mk('m_%d' % i) for i in range(p)]
    cov = [[None] * p for _ in range(p)]
    for i in range(p):
        for j in range(i, p):
            cov[i][j] = cov[j][i] = mk('c_%d_%d' % (i, j))
    seed = e.int('seed')
    e.assume(seed >= 0)
    e.assume(seed < 2 ** 32)
    cl = []
    try:
        dist = nd.NormalDistribution(np.array(mean, dtype=dt), np.array(cov, dtype=dt))
        X = dist.sample(n, random_state=seed)
        outcome = 'returned'
        ok = isinstance(X, np.ndarray) and X.shape == (n, p)
        cl.append(('the sample is an n x p array', ok))
        if ok and n > 0:
            rec = [r for r in np.random.LOG if r['op'] == 'multivariate_normal']
            cl.append(('one multivariate normal draw', len(rec) == 1))
            if len(rec) == 1:
                _law_clauses(cl, X, n, p, rec[0]['z'], mean, cov, 'NormalDistribution.sample')
    except Exception as ex:
        outcome = 'raised ' + type(ex).__name__
        cl.append(('sampling must not raise (%s: %s)' % (type(ex).__name__, str(ex)[:80]), False))
    return PathResult(outcome, cl, inputs=dict(kind='normal', mean=mean, cov=cov, n=n, seed=seed, dtype=dt), call='normal', info=dict(p=p, n=n, dtype=dt))


def h_lganm(ctx):
    e = ctx.eng
    lg = ctx.mod('sempler.lganm')
    p, n = ctx.params['p'], ctx.params['n']
    rows, pat, means, variances = SI.sym_model(ctx, 'float')
    do, noise, shift, descr = SI.sym_interventions(ctx, p, kinds_allowed=KINDS_L, scalar_params=True, max_targets=ctx.params.get('max_targets'))
    for d in descr:
        if '+' in d['kind'] and any(d.get(part) == 'scalar' for part in ('do', 'noise', 'shift')):
            from symx.core import PathInfeasible
            raise PathInfeasible()
    seed = e.int('seed')
    e.assume(seed >= 0)
    e.assume(seed < 2 ** 32)
    cl = []
    try:
        model = lg.LGANM(np.array(rows, dtype=float), np.array(means, dtype=float), np.array(variances, dtype=float))
        dist = model.sample(population=True, do_interventions=do, noise_interventions=noise, shift_interventions=shift)
        k0 = len(np.random.LOG)
        X = model.sample(n, do_interventions=do, noise_interventions=noise, shift_interventions=shift, random_state=seed)
        outcome = 'returned'
        ok = isinstance(X, np.ndarray) and X.shape == (n, p)
        cl.append(('the sample is an n x p array', ok))
        if ok and n > 0:
            rec = [r for r in np.random.LOG[k0:] if r['op'] == 'multivariate_normal']
            cl.append(('one multivariate normal draw', len(rec) == 1))
            if len(rec) == 1:
                mean = [dist.mean[i] for i in range(p)]
                cov = [[dist.covariance[i, j] for j in range(p)] for i in range(p)]
                _law_clauses(cl, X, n, p, rec[0]['z'], mean, cov, 'LGANM.sample')
    except Exception as ex:
        outcome = 'raised ' + type(ex).__name__
        cl.append(('sampling must not raise (%s: %s)' % (type(ex).__name__, str(ex)[:80]), False))
    return PathResult(outcome, cl, inputs=dict(kind='lganm', W=rows, means=means, variances=variances, do=do, noise=noise, shift=shift, n=n, seed=seed),
                      call='lganm', info=dict(pattern=[list(r) for r in pat], interventions=descr, n=n))


def h_anm(ctx):
    """ANM with linear assignments and noise.normal has the law of the LGANM with the same parameters"""
    e = ctx.eng
    lg = ctx.mod('sempler.lganm')
    am = ctx.mod('sempler.anm')
    nz = ctx.mod('sempler.noise')
    p, n = ctx.params['p'], ctx.params['n']
    rows, pat, means, variances = SI.sym_model(ctx, 'float')
    do, noise, shift, descr = SI.sym_interventions(ctx, p, kinds_allowed=KINDS_A, scalar_params=False, max_targets=ctx.params.get('max_targets'))
    seed = e.int('seed')
    e.assume(seed >= 0)
    e.assume(seed < 2 ** 32)
    cl = []
    try:
        model = lg.LGANM(np.array(rows, dtype=float), np.array(means, dtype=float), np.array(variances, dtype=float))
        dist = model.sample(population=True, do_interventions=do, noise_interventions=noise, shift_interventions=shift)
        # the ANM with the same weights / noise means / variances
        assignments = []
        for i in range(p):
            par = [j for j in range(p) if pat[j][i]]
            if not par:
                assignments.append(None)
            else:
                w = np.array([rows[j][i] for j in par], dtype=float)
                assignments.append((lambda w: (lambda X: X @ w))(w))
        noises = [nz.normal(means[i], variances[i]) for i in range(p)]
        conv = lambda dic: {k: nz.normal(v[0], v[1]) for k, v in dic.items()}
        anm = am.ANM(np.array(rows, dtype=float), assignments, noises)
        k0 = len(np.random.LOG)
        X = anm.sample(n, do_interventions=conv(do), shift_interventions=conv(shift), noise_interventions=conv(noise), random_state=seed)
        outcome = 'returned'
        ok = isinstance(X, np.ndarray) and X.shape == (n, p)
        cl.append(('the sample is an n x p array', ok))
        if ok and n > 0:
            draws = [r for r in np.random.LOG[k0:] if r['op'] == 'normal']
            okd = all(len(r['z']) == n for r in draws)
            cl.append(('every noise draw has n variates', okd))
            if okd:
                zrows = [[r['z'][t] for r in draws] for t in range(n)]
                mean = [dist.mean[i] for i in range(p)]
                cov = [[dist.covariance[i, j] for j in range(p)] for i in range(p)]
                _law_clauses(cl, X, n, p, zrows, mean, cov, 'ANM.sample vs LGANM law')
    except Exception as ex:
        outcome = 'raised ' + type(ex).__name__
        cl.append(('sampling must not raise (%s: %s)' % (type(ex).__name__, str(ex)[:80]), False))
    return PathResult(outcome, cl, inputs=dict(kind='anm', W=rows, means=means, variances=variances, do=do, noise=noise, shift=shift, n=n, seed=seed),
                      call='anm', info=dict(pattern=[list(r) for r in pat], interventions=descr, n=n))


def h_anm_wide(ctx):
    """many variables: one child with two parents at arbitrary (symbolic) positions, different weights;
    ANM (linear assignment over the parent columns it receives) vs the LGANM population law"""
    e = ctx.eng
    lg = ctx.mod('sempler.lganm')
    am = ctx.mod('sempler.anm')
    nz = ctx.mod('sempler.noise')
    p, n = ctx.params['p'], 1
    a, b, c = e.int('pa1'), e.int('pa2'), e.int('child')
    for v in (a, b, c):
        e.assume(v >= 0)
        e.assume(v < p)
    e.assume(a < b)
    e.assume(c != a)
    e.assume(c != b)
    ai, bi, ci = int(a), int(b), int(c)
    w1, w2 = e.real('w1'), e.real('w2')
    e.assume(w1 != 0)
    e.assume(w2 != 0)
    rows = [[0.0] * p for _ in range(p)]
    rows[ai][ci] = w1
    rows[bi][ci] = w2
    means = [e.real('mean_%d' % i) if i in (ai, bi, ci) else 0.0 for i in range(p)]
    variances = [e.real('var_%d' % i) if i in (ai, bi, ci) else 1.0 for i in range(p)]
    for i in (ai, bi, ci):
        e.assume(variances[i] > 0)
    seed = e.int('seed')
    e.assume(seed >= 0)
    e.assume(seed < 2 ** 32)
    cl = []
    try:
        model = lg.LGANM(np.array(rows, dtype=float), np.array(means, dtype=float), np.array(variances, dtype=float))
        dist = model.sample(population=True)
        wv = np.array([w1, w2], dtype=float)
        assignments = [None] * p
        assignments[ci] = lambda X: X @ wv          # weights in increasing parent index order
        noises = [nz.normal(means[i], variances[i]) for i in range(p)]
        anm = am.ANM(np.array(rows, dtype=float), assignments, noises)
        k0 = len(np.random.LOG)
        X = anm.sample(n, random_state=seed)
        outcome = 'returned'
        ok = isinstance(X, np.ndarray) and X.shape == (n, p)
        cl.append(('the sample is an n x p array', ok))
        if ok:
            draws = [r for r in np.random.LOG[k0:] if r['op'] == 'normal']
            zrows = [[r['z'][t] for r in draws] for t in range(n)]
            mean = [dist.mean[i] for i in range(p)]
            cov = [[dist.covariance[i, j] for j in range(p)] for i in range(p)]
            _law_clauses(cl, X, n, p, zrows, mean, cov, 'wide ANM vs LGANM law')
    except Exception as ex:
        outcome = 'raised ' + type(ex).__name__
        cl.append(('sampling must not raise (%s: %s)' % (type(ex).__name__, str(ex)[:80]), False))
    return PathResult(outcome, cl, inputs=dict(kind='anm', W=rows, means=means, variances=variances, do={}, noise={}, shift={}, n=n, seed=seed),
                      call='anm', info=dict(p=p, parents=[ai, bi], child=ci))


# ---- replay: statistical confirmation on the real library (z-scores at 7 sigma), exact population law as reference --------

def _exact_pop(inp):
    from harness import C01
    W = [[Fraction(unj(x)) if not isinstance(unj(x), float) else Fraction(unj(x)) for x in r] for r in inp['W']]
    means = [Fraction(unj(x)) for x in inp['means']]
    variances = [Fraction(unj(x)) for x in inp['variances']]
    def cv(dic):
        out = {}
        for k, v in dic.items():
            out[int(k)] = (Fraction(unj(v[0])), Fraction(unj(v[1]))) if isinstance(v, list) else Fraction(unj(v))
        return out
    return C01.exact_law(W, means, variances, cv(inp['do']), cv(inp['noise']), cv(inp['shift']))


def replay(rec):
    import numpy
    s = real_sempler()
    inp = rec['inputs']
    N = 40000
    kind = inp['kind']
    sd = int(unj(inp['seed'])) % (2 ** 32)
    # clauses about the structure of the draw (not about particular parameter values): replay with non-degenerate parameters
    generic = any(k in rec.get('clause', '') for k in ('fresh variates', 'every noise draw', 'n x p array', 'one multivariate'))
    if generic and kind != 'normal':
        inp = dict(inp, variances=[1 + i for i in range(len(inp['variances']))])
    try:
        if kind == 'normal':
            mean = numpy.array(unj_float(inp['mean']), dtype=float)
            cov = numpy.array(unj_float(inp['cov']), dtype=float)
            if generic:
                cov = numpy.eye(len(mean)) + 0.5
            if inp.get('dtype') == 'int':
                # integer-typed parameters: a valid integer covariance with the same zero pattern on the diagonal
                mean = numpy.array([int(x) for x in mean], dtype=int)
                cov = numpy.diag([2 if cov[i, i] != 0 else 0 for i in range(len(mean))]).astype(int) if numpy.linalg.eigvalsh(cov).min() < 0 or generic else cov.astype(int)
            ev = numpy.linalg.eigvalsh(cov)
            if ev.min() < -1e-9:
                # the counterexample's covariance is not PSD: use a PSD one with the same zero pattern on the diagonal
                B = numpy.tril(numpy.ones_like(cov)) * (numpy.diag(cov) > 0)[:, None]
                cov = B @ B.T
            X = s.NormalDistribution(mean, cov).sample(N, random_state=sd)
            pm, pc = mean, cov
        else:
            W = numpy.array(unj_float(inp['W']), dtype=float)
            means = numpy.array(unj_float(inp['means']), dtype=float)
            variances = numpy.array(unj_float(inp['variances']), dtype=float)
            do, noise, shift = SI.conc_interventions([inp['do'], inp['noise'], inp['shift']])
            # the claim: finite samples (LGANM, and the equivalent ANM) follow the population law the library returns
            # for the same arguments (that this law is the right one is property C01)
            pop = s.LGANM(W, means, variances).sample(population=True, do_interventions=do, noise_interventions=noise, shift_interventions=shift)
            pm = numpy.array(pop.mean, dtype=float)
            pc = numpy.array(pop.covariance, dtype=float)
            if kind == 'lganm':
                X = s.LGANM(W, means, variances).sample(N, do_interventions=do, noise_interventions=noise, shift_interventions=shift, random_state=sd)
            else:
                p = len(W)
                assignments = [((lambda w: (lambda Z: Z @ w))(W[W[:, i] != 0, i]) if (W[:, i] != 0).any() else None) for i in range(p)]
                noises = [s.noise.normal(means[i], variances[i]) for i in range(p)]
                conv = lambda dic: {k: s.noise.normal(v[0], v[1]) for k, v in dic.items()}
                X = s.ANM(W, assignments, noises).sample(N, do_interventions=conv(do), shift_interventions=conv(shift), noise_interventions=conv(noise), random_state=sd)
    except Exception as ex:
        return (True, '%s sampling raised %s: %s' % (kind, type(ex).__name__, ex))
    bad = []
    p = len(pm)
    if X.shape != (N, p):
        return (True, 'shape %s instead of %s' % (X.shape, (N, p)))
    # the shape at the recorded n
    n0 = int(inp['n'])
    try:
        if kind == 'normal':
            Xn = s.NormalDistribution(mean, cov).sample(n0, random_state=sd)
        elif kind == 'lganm':
            Xn = s.LGANM(W, means, variances).sample(n0, do_interventions=do, noise_interventions=noise, shift_interventions=shift, random_state=sd)
        else:
            Xn = s.ANM(W, assignments, noises).sample(n0, do_interventions=conv(do), shift_interventions=conv(shift), noise_interventions=conv(noise), random_state=sd)
        if Xn.shape != (n0, p):
            bad.append('sample(%d) has shape %s' % (n0, Xn.shape))
    except Exception as ex:
        bad.append('sample(%d) raised %s' % (n0, type(ex).__name__))
    em = X.mean(axis=0)
    ec = numpy.cov(X, rowvar=False).reshape(p, p)
    for i in range(p):
        sdv = max(pc[i, i], 0) ** 0.5
        if sdv == 0:
            if numpy.abs(X[:, i] - pm[i]).max() > 1e-6 * max(1.0, abs(pm[i])):
                bad.append('variable %d should be the constant %g, deviates by %g' % (i, pm[i], numpy.abs(X[:, i] - pm[i]).max()))
        elif abs(em[i] - pm[i]) > 7 * sdv / N ** 0.5:
            bad.append('mean of variable %d is %.4f, population %.4f (z = %.1f)' % (i, em[i], pm[i], (em[i] - pm[i]) / (sdv / N ** 0.5)))
        for j in range(i, p):
            se = ((pc[i, i] * pc[j, j] + pc[i, j] ** 2) / N) ** 0.5
            if abs(ec[i, j] - pc[i, j]) > 7 * se + 1e-9:
                bad.append('cov(%d,%d) is %.4f, population %.4f (z = %.1f)' % (i, j, ec[i, j], pc[i, j], (ec[i, j] - pc[i, j]) / max(se, 1e-12)))
    # independence of consecutive rows
    if N > 2 and not bad:
        for i in range(p):
            if pc[i, i] > 0:
                r1 = numpy.corrcoef(X[:-1, i], X[1:, i])[0, 1]
                if abs(r1) > 7 / N ** 0.5:
                    bad.append('consecutive rows of variable %d are correlated (r = %.3f)' % (i, r1))
    return (len(bad) > 0, '%s sample of %d rows vs the library\'s population law for the same arguments: %s' % (kind, N, '; '.join(bad[:4]) or 'consistent'))


def obligations(tier):
    q = tier == 'quick'
    ob = []
    ns = (1, 2) if q else (1, 2, 3)
    for p in (1, 2, 3):
        ob.append(Obligation('normal_p%d' % p, h_normal, [dict(p=p, n=n) for n in (0,) + tuple(ns)] + [dict(p=p, n=1, dtype='int')],
                             "NormalDistribution.sample, %d variables, symbolic mean / covariance / seed (float and integer-typed parameters)" % p,
                             expect=('returned',), weight=p))
    for p in (1, 2):
        ob.append(Obligation('lganm_p%d' % p, h_lganm, [dict(c, n=n) for c in I.dag_pair_cubes(p, 0) for n in ns],
                             "LGANM.sample(n) vs sample(population=True), %d variables, all intervention assignments" % p, expect=('returned',), weight=10 * p))
        ob.append(Obligation('anm_p%d' % p, h_anm, [dict(c, n=n) for c in I.dag_pair_cubes(p, 0) for n in ns],
                             "ANM (linear assignments, noise.normal) vs LGANM law, %d variables, all intervention assignments without shift+noise overlap" % p, expect=('returned',), weight=10 * p))
    mt = 1 if q else 2
    ob.append(Obligation('lganm_p3', h_lganm, [dict(c, n=n, max_targets=mt) for c in I.dag_pair_cubes(3, 3) for n in ((1,) if q else (1, 2))],
                         "LGANM.sample(n) vs population law, 3 variables, at most %d intervened" % mt, expect=('returned',), weight=60, timeout_ms=120000))
    ob.append(Obligation('anm_p3', h_anm, [dict(c, n=n, max_targets=mt) for c in I.dag_pair_cubes(3, 3) for n in ((1,) if q else (1, 2))],
                         "ANM vs LGANM law, 3 variables, at most %d intervened" % mt, expect=('returned',), weight=60, timeout_ms=120000))
    pw = 10 if q else 12
    ob.append(Obligation('anm_wide_p%d' % pw, h_anm_wide, [dict(p=pw)], "%d variables, one child with two parents at arbitrary positions and different weights: ANM vs LGANM law" % pw,
                         expect=('returned',), weight=50, timeout_ms=120000))
    return ob
