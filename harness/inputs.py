"""Symbolic input generators shared by the graph harnesses.

The non-zero pattern is decided first (each entry's `!= 0` is a solver
decision under the stated precondition, so exactly the admissible patterns
are explored); present weights stay symbolic Reals (any sign, any magnitude),
absent entries are the literal 0."""
import itertools
import symnp as np
from oracles import graph as G


def pair_cubes(p, npairs, extra=None):
    """cubes fixing the state (0 none, 1 i->j, 2 j->i, 3 i--j) of the first npairs node pairs"""
    pairs = [(i, j) for i in range(p) for j in range(i + 1, p)][:npairs]
    out = []
    for st in itertools.product((0, 1, 2, 3), repeat=len(pairs)):
        d = dict(p=p, fixpairs=[[i, j, s] for (i, j), s in zip(pairs, st)])
        if extra:
            d.update(extra)
        out.append(d)
    return out


def embed_cubes(P, labels, npairs, dag=False, extra=None):
    """cubes for a small graph EMBEDDED in P nodes: only pairs among `labels` may be adjacent (all other nodes
    are isolated); the states of the first npairs label pairs are fixed.  Used for 'wide' obligations that put
    nodes with large / unordered indices (hash order, index arithmetic) into play."""
    labels = list(labels)
    pairs = [(labels[a], labels[b]) for a in range(len(labels)) for b in range(a + 1, len(labels))][:npairs]
    out = []
    for st in itertools.product((0, 1, 2) if dag else (0, 1, 2, 3), repeat=len(pairs)):
        d = dict(p=P, embed=labels, fixpairs=[[i, j, s_] for (i, j), s_ in zip(pairs, st)])
        if extra:
            d.update(extra)
        out.append(d)
    return out


def _allowed(params, p):
    labels = params.get('embed')
    if labels is None:
        return lambda i, j: i != j
    ls = set(labels)
    return lambda i, j: i != j and i in ls and j in ls


def dag_pair_cubes(p, npairs, extra=None):
    return [c for c in pair_cubes(p, npairs, extra) if all(s != 3 for (_, _, s) in c['fixpairs'])]


def _apply_fix(e, rows, params):
    for (i, j, s) in params.get('fixpairs', []):
        a, b = rows[i][j], rows[j][i]
        e.assume((a != 0) if s in (1, 3) else (a == 0))
        e.assume((b != 0) if s in (2, 3) else (b == 0))
    if params.get('no_other_undirected'):
        fixed = {(i, j) for (i, j, s_) in params.get('fixpairs', [])}
        p_ = len(rows)
        for i in range(p_):
            for j in range(i + 1, p_):
                if (i, j) not in fixed:
                    e.assume(G.Z(G.Not(G.And(rows[i][j] != 0, rows[j][i] != 0))))
    mx = params.get('max_edges')
    if mx is not None:
        p = len(rows)
        cnt = 0
        for i in range(p):
            for j in range(i + 1, p):
                cnt = cnt + _num(e, G.Or(rows[i][j] != 0, rows[j][i] != 0))
        e.assume(cnt <= mx)


def _num(e, f):
    from symx.core import SB
    f = G.T(f)
    if f is True:
        return 1
    if f is False:
        return 0
    return SB(f).num()


def weighted_dag(ctx, name='w'):
    """weight matrix of an arbitrary DAG on p nodes: returns (rows, pattern)
    rows: p x p list of (Real SV | 0.0); pattern: 0/1 tuple-of-tuples"""
    e = ctx.eng
    p = ctx.params['p']
    ok = _allowed(ctx.params, p)
    sym = [[e.real('%s_%d_%d' % (name, i, j)) if ok(i, j) else 0.0 for j in range(p)] for i in range(p)]
    nz = [[G.T(sym[i][j] != 0) if ok(i, j) else False for j in range(p)] for i in range(p)]
    e.assume(G.Z(G.acyclic(nz)))
    _apply_fix(e, sym, ctx.params)
    e._ensure_model()       # an infeasible cube (e.g. a cyclic combination of fixed pairs) ends here
    rows = [[0.0] * p for _ in range(p)]
    pat = [[0] * p for _ in range(p)]
    for i in range(p):
        for j in range(p):
            if ok(i, j) and bool(sym[i][j] != 0):
                rows[i][j] = sym[i][j]
                pat[i][j] = 1
    return rows, tuple(tuple(r) for r in pat)


def binary_pdag(ctx, name='b'):
    """0/1 adjacency of an arbitrary PDAG whose directed part is acyclic.
    returns pattern (0/1 tuple of tuples); entries are decided by the solver"""
    e = ctx.eng
    p = ctx.params['p']
    ok = _allowed(ctx.params, p)
    sym = [[e.int('%s_%d_%d' % (name, i, j)) if ok(i, j) else 0 for j in range(p)] for i in range(p)]
    for i in range(p):
        for j in range(p):
            if ok(i, j):
                e.assume(sym[i][j] >= 0)
                e.assume(sym[i][j] <= 1)
    nz = [[G.T(sym[i][j] != 0) if ok(i, j) else False for j in range(p)] for i in range(p)]
    dirm = [[G.directed(nz, i, j) if ok(i, j) else False for j in range(p)] for i in range(p)]
    e.assume(G.Z(G.acyclic(dirm)))
    _apply_fix(e, sym, ctx.params)
    e._ensure_model()
    pat = [[0] * p for _ in range(p)]
    for i in range(p):
        for j in range(p):
            if ok(i, j) and bool(sym[i][j] != 0):
                pat[i][j] = 1
    return tuple(tuple(r) for r in pat)


def arr(rows, dt):
    return np.array([list(r) for r in rows], dtype=dt)


def subsets(items):
    items = list(items)
    for r in range(len(items) + 1):
        for c in itertools.combinations(items, r):
            yield set(c)


def universe(pat):
    """nodes over which node sets are enumerated: all nodes for small graphs; for wide (embedded) graphs the
    non-isolated nodes plus the smallest isolated one (the same rule is used by the replay side)"""
    p = len(pat)
    if p <= 5:
        return list(range(p))
    act = [i for i in range(p) if any(pat[i][j] or pat[j][i] for j in range(p))]
    iso = [i for i in range(p) if i not in act]
    return sorted(act + iso[:1])
