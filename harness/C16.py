"""C16 -- Structural decompositions of a graph are exact and weight-preserving."""
import symnp as np
from harness.common import Obligation, PathResult
from harness import inputs as I
from harness.calllog import CallLog, real_replay
from oracles import graph as G

PID = 'C16'

META = dict(
    explanation="only_directed, only_undirected, skeleton, undirected_edges, directed_edges, edge_weights, vstructures, "
                "moral_graph, induced_subgraph, is_clique, is_complete and degrees are executed on (a) every binary PDAG "
                "with acyclic directed part (int, float and bool dtype) and (b) every DAG pattern with *symbolic real weights*; "
                "each output entry is compared with the definition; weight preservation is a term equality decided by z3 "
                "for all weights of the pattern at once.",
    bounds=dict(quick="binary PDAGs p <= 3 (all 62+...) and p = 4 with <= 4 edges; weighted DAGs p <= 4 (543 patterns, all real weights); all node subsets S; wide: 4-node weighted DAGs / 3-node PDAGs embedded at nodes 11,1,9,0 of a 12-node graph",
                thorough="binary PDAGs p <= 4 (all 3,608 with acyclic directed part); weighted DAGs p <= 5 restricted to <= 6 edges"),
    outside=["weighted PDAGs with undirected edges (only DAG weight matrices are quantified over)", "p > 5"],
    stubs=["numpy -> symnp"],
    assumptions=["z3 sound; symnp agrees with numpy (differentially validated on every path against the real library)"],
)


def _checks(u, log, M, pat, entries, p, weighted):
    """M: shim array given to the library; pat: concrete 0/1 pattern; entries: p x p scalars (symbolic weights or 0/1)"""
    cl = []
    nz = [[bool(pat[i][j]) for j in range(p)] for i in range(p)]
    dirc = lambda i, j: nz[i][j] and not nz[j][i]
    und = lambda i, j: nz[i][j] and nz[j][i]
    adj = lambda i, j: nz[i][j] or nz[j][i]
    zero = 0

    def ok(name, r):
        if r[0] != 'ok':
            cl.append((name + ' must not raise', False))
            return None
        return r[1]

    # only_directed / only_undirected keep the original entries and sum to the input
    od = ok('only_directed', log.call(u, 'only_directed', M))
    ou = ok('only_undirected', log.call(u, 'only_undirected', M))
    if od is not None and ou is not None:
        good = od.shape == (p, p) and ou.shape == (p, p)
        cl.append(('only_directed/only_undirected shape', good))
        if good:
            for i in range(p):
                for j in range(p):
                    cl.append(('only_directed[%d,%d] keeps the entry of a directed edge, else 0' % (i, j),
                               od[i, j] == (entries[i][j] if dirc(i, j) else zero)))
                    cl.append(('only_undirected[%d,%d] keeps the entry of an undirected edge, else 0' % (i, j),
                               ou[i, j] == (entries[i][j] if und(i, j) else zero)))
                    cl.append(('only_directed + only_undirected = input at [%d,%d]' % (i, j),
                               od[i, j] + ou[i, j] == entries[i][j]))
            cl.append(('only_directed does not alias its input', not np.shares_memory(od, M)))
    sk = ok('skeleton', log.call(u, 'skeleton', M))
    if sk is not None:
        good = sk.shape == (p, p)
        cl.append(('skeleton shape', good))
        if good:
            for i in range(p):
                for j in range(p):
                    cl.append(('skeleton[%d,%d] is the symmetric 0/1 adjacency' % (i, j), sk[i, j] == (1 if adj(i, j) else 0)))
    ue = ok('undirected_edges', log.call(u, 'undirected_edges', M))
    if ue is not None:
        got = sorted((int(a), int(b)) for a, b in ue)
        want = sorted((i, j) for i in range(p) for j in range(p) if i > j and und(i, j))
        cl.append(('undirected_edges lists every undirected edge once as (i, j) with i > j', got == want))
    de = ok('directed_edges', log.call(u, 'directed_edges', M))
    if de is not None:
        got = sorted((int(a), int(b)) for a, b in de)
        want = sorted((i, j) for i in range(p) for j in range(p) if dirc(i, j))
        cl.append(('directed_edges lists every directed edge once', got == want))
    ew = ok('edge_weights', log.call(u, 'edge_weights', M))
    if ew is not None:
        keys = sorted((int(a), int(b)) for (a, b) in ew.keys())
        want = sorted((i, j) for i in range(p) for j in range(p) if nz[i][j])
        cl.append(('edge_weights keys are exactly the non-zero cells', keys == want))
        if keys == want:
            for (a, b), v in ew.items():
                cl.append(('edge_weights[(%d,%d)] is the entry' % (a, b), v == entries[int(a)][int(b)]))
    vs = ok('vstructures', log.call(u, 'vstructures', M))
    if vs is not None:
        want = set((i, c, j) for (i, c, j) in G.all_vstructs(p) if dirc(i, c) and dirc(j, c) and not adj(i, j))
        got = set((int(a), int(b), int(c)) for (a, b, c) in vs)
        cl.append(('vstructures is exactly the set of unshielded colliders (i, c, j), i < j', got == want))
    mg = ok('moral_graph', log.call(u, 'moral_graph', M))
    if mg is not None:
        good = mg.shape == (p, p)
        cl.append(('moral_graph shape', good))
        if good:
            for i in range(p):
                for j in range(p):
                    married = i != j and any(dirc(i, c) and dirc(j, c) for c in range(p))
                    cl.append(('moral_graph[%d,%d] = adjacent or parents of a common child' % (i, j),
                               mg[i, j] == (1 if (adj(i, j) or married) else 0)))
    dg = ok('degrees', log.call(u, 'degrees', M))
    if dg is not None:
        good = dg.shape == (p,)
        cl.append(('degrees shape', good))
        if good:
            for i in range(p):
                cl.append(('degrees[%d]' % i, dg[i] == sum(1 for j in range(p) if adj(i, j))))
    ic = ok('is_complete', log.call(u, 'is_complete', M))
    if ic is not None:
        cl.append(('is_complete <=> every pair adjacent', bool(ic) == all(adj(i, j) for i in range(p) for j in range(i + 1, p))))
    for S in I.subsets(I.universe(pat)):
        r = ok('induced_subgraph', log.call(u, 'induced_subgraph', set(S), M))
        if len(S) >= 2:
            # the node set given as a one-shot iterator / tuple / list (not only as a set)
            for Sarg in (iter(sorted(S)), tuple(sorted(S, reverse=True))):
                try:
                    r2 = u.induced_subgraph(Sarg, M)
                    same = r is not None and r2.shape == r.shape and all(bool(r2[i, j] == r[i, j]) for i in range(p) for j in range(p))
                except Exception:
                    same = False
                cl.append(('induced_subgraph gives the same answer for S given as an iterator / tuple', same))
        if r is not None:
            good = r.shape == (p, p)
            cl.append(('induced_subgraph shape', good))
            if good:
                for i in range(p):
                    for j in range(p):
                        cl.append(('induced_subgraph(%s)[%d,%d]' % (sorted(S), i, j),
                                   r[i, j] == (entries[i][j] if (i in S and j in S) else zero)))
        r = ok('is_clique', log.call(u, 'is_clique', set(S), M))
        if r is not None:
            want = all(adj(i, j) for i in S for j in S if i < j)
            cl.append(('is_clique(%s)' % sorted(S), bool(r) == want))
    return cl


def h_binary(dt):
    def fn(ctx):
        u = ctx.mod('sempler.utils')
        p = ctx.params['p']
        pat = I.binary_pdag(ctx)
        M = I.arr(pat, dt)
        M.buf.frozen = True
        log = CallLog('sempler.utils')
        one, zero = {'int': (1, 0), 'float': (1.0, 0.0), 'bool': (True, False)}[dt]
        entries = [[one if pat[i][j] else zero for j in range(p)] for i in range(p)]
        cl = _checks(u, log, M, pat, entries, p, False)
        return PathResult('checked', cl, inputs=dict(calls=log.inputs(), P=[list(r) for r in pat], dtype=dt),
                          call='binary', info=dict(pattern=[list(r) for r in pat], dtype=dt),
                          diff=(real_replay('sempler.utils'), log.symbolic()))
    return fn


def h_weighted(ctx):
    u = ctx.mod('sempler.utils')
    p = ctx.params['p']
    rows, pat = I.weighted_dag(ctx)
    M = I.arr(rows, 'float')
    M.buf.frozen = True
    log = CallLog('sempler.utils')
    cl = _checks(u, log, M, pat, rows, p, True)
    return PathResult('checked', cl, inputs=dict(calls=log.inputs(), P=rows, dtype='float'), call='weighted',
                      info=dict(pattern=[list(r) for r in pat], weights='symbolic reals'),
                      diff=(real_replay('sempler.utils'), log.symbolic()))


def h_weighted_pdag(ctx):
    """any PDAG pattern (acyclic directed part) with symbolic real weights on every present entry:
    only the functions that copy / list entries (no sums of entries) are checked here"""
    u = ctx.mod('sempler.utils')
    e = ctx.eng
    p = ctx.params['p']
    pat = I.binary_pdag(ctx)
    rows = [[(e.real('v_%d_%d' % (i, j)) if pat[i][j] else 0.0) for j in range(p)] for i in range(p)]
    for i in range(p):
        for j in range(p):
            if pat[i][j]:
                e.assume(rows[i][j] != 0)
    M = I.arr(rows, 'float')
    M.buf.frozen = True
    log = CallLog('sempler.utils')
    cl = []
    nz = [[bool(pat[i][j]) for j in range(p)] for i in range(p)]
    r1 = log.call(u, 'only_directed', M)
    r2 = log.call(u, 'only_undirected', M)
    r3 = log.call(u, 'edge_weights', M)
    if r1[0] != 'ok' or r2[0] != 'ok' or r3[0] != 'ok':
        cl.append(('must not raise', False))
    else:
        od, ou, ew = r1[1], r2[1], r3[1]
        for i in range(p):
            for j in range(p):
                d = nz[i][j] and not nz[j][i]
                un = nz[i][j] and nz[j][i]
                cl.append(('only_directed[%d,%d] keeps the original entry' % (i, j), od[i, j] == (rows[i][j] if d else 0)))
                cl.append(('only_undirected[%d,%d] keeps the original entry' % (i, j), ou[i, j] == (rows[i][j] if un else 0)))
                cl.append(('sum is the input at [%d,%d]' % (i, j), od[i, j] + ou[i, j] == rows[i][j]))
        keys = sorted((int(a), int(b)) for (a, b) in ew.keys())
        want = sorted((i, j) for i in range(p) for j in range(p) if nz[i][j])
        cl.append(('edge_weights keys', keys == want))
        if keys == want:
            for (a, b), v in ew.items():
                cl.append(('edge_weights value (%d,%d)' % (a, b), v == rows[int(a)][int(b)]))
    return PathResult('checked', cl, inputs=dict(calls=log.inputs(), P=rows, dtype='float'), call='weighted_pdag',
                      info=dict(pattern=[list(r) for r in pat], weights='symbolic reals on all present entries'),
                      diff=(real_replay('sempler.utils'), log.symbolic()))


def obligations(tier):
    ob = []
    for p in (2, 3):
        ob.append(Obligation('weighted_pdag_split_p%d' % p, h_weighted_pdag, I.pair_cubes(p, 2 if p == 3 else 0),
                             "all PDAG patterns on %d nodes with symbolic real weights: only_directed / only_undirected / edge_weights" % p,
                             expect=('checked',), weight=p))
    for p in (1, 2, 3):
        for dt in ('int', 'float', 'bool'):
            ob.append(Obligation('binary_pdag_%s_p%d' % (dt, p), h_binary(dt), I.pair_cubes(p, 2 if p == 3 else 0),
                                 "all binary PDAGs (acyclic directed part) on %d nodes, dtype %s" % (p, dt), expect=('checked',), weight=p))
        ob.append(Obligation('weighted_dag_p%d' % p, h_weighted, I.dag_pair_cubes(p, 2 if p == 3 else 0),
                             "all DAG patterns on %d nodes with symbolic real weights" % p, expect=('checked',), weight=p))
    ob.append(Obligation('weighted_dag_p4', h_weighted, I.dag_pair_cubes(4, 3),
                         "all DAG patterns on 4 nodes with symbolic real weights", expect=('checked',), weight=20))
    ob.append(Obligation('weighted_dag_wide_p12', h_weighted, I.embed_cubes(12, [11, 1, 9, 0], 3, dag=True),
                         "all 4-node DAG patterns with symbolic weights embedded at nodes 11, 1, 9, 0 of a 12-node graph", expect=('checked',), weight=40))
    ob.append(Obligation('binary_pdag_wide_p12', h_binary('int'), I.embed_cubes(12, [11, 1, 9], 1),
                         "all 3-node binary PDAGs embedded at nodes 11, 1, 9 of a 12-node graph", expect=('checked',), weight=20))
    if tier == 'quick':
        ob.append(Obligation('binary_pdag_int_p4_le4', h_binary('int'), I.pair_cubes(4, 2, dict(max_edges=4)),
                             "binary PDAGs on 4 nodes with at most 4 edges, dtype int", expect=('checked',), weight=20))
    else:
        for dt in ('int', 'float'):
            ob.append(Obligation('binary_pdag_%s_p4' % dt, h_binary(dt), I.pair_cubes(4, 3),
                                 "all binary PDAGs (acyclic directed part) on 4 nodes, dtype %s" % dt, expect=('checked',), weight=40))
        ob.append(Obligation('weighted_dag_p5_le6', h_weighted, I.dag_pair_cubes(5, 3, dict(max_edges=6)),
                             "DAG patterns on 5 nodes with <= 6 edges, symbolic real weights", expect=('checked',), weight=60))
    return ob


def replay(rec):
    """re-run the recorded calls on the real library and re-check the violated clause family concretely"""
    import numpy
    from harness.common import real_sempler, unj_float
    from harness.calllog import dec_real
    s = real_sempler()
    u = s.utils
    inp = rec['inputs']
    P = numpy.array(unj_float(inp['P']), dtype={'int': int, 'bool': bool}.get(inp.get('dtype'), float))
    p = len(P)
    nz = [[bool(P[i][j] != 0) for j in range(p)] for i in range(p)]
    dirc = lambda i, j: nz[i][j] and not nz[j][i]
    und = lambda i, j: nz[i][j] and nz[j][i]
    adj = lambda i, j: nz[i][j] or nz[j][i]
    bad = []
    if rec.get('call') == 'weighted_pdag':
        od, ou, ew = u.only_directed(P.copy()), u.only_undirected(P.copy()), u.edge_weights(P.copy())
        for i in range(p):
            for j in range(p):
                if od[i, j] != (P[i, j] if dirc(i, j) else 0):
                    bad.append('only_directed[%d,%d]=%r' % (i, j, od[i, j]))
                if ou[i, j] != (P[i, j] if und(i, j) else 0):
                    bad.append('only_undirected[%d,%d]=%r' % (i, j, ou[i, j]))
        if sorted((int(a), int(b)) for a, b in ew) != sorted((i, j) for i in range(p) for j in range(p) if nz[i][j]) or any(v != P[a, b] for (a, b), v in ew.items()):
            bad.append('edge_weights')
        return (len(bad) > 0, "on weighted PDAG P=%s: %s" % (P.tolist(), '; '.join(bad[:6]) or 'all definitions satisfied'))
    try:
        od, ou = u.only_directed(P.copy()), u.only_undirected(P.copy())
        for i in range(p):
            for j in range(p):
                if od[i, j] != (P[i, j] if dirc(i, j) else 0):
                    bad.append('only_directed[%d,%d]=%r' % (i, j, od[i, j]))
                if ou[i, j] != (P[i, j] if und(i, j) else 0):
                    bad.append('only_undirected[%d,%d]=%r' % (i, j, ou[i, j]))
        sk = u.skeleton(P.copy())
        for i in range(p):
            for j in range(p):
                if sk[i, j] != (1 if adj(i, j) else 0):
                    bad.append('skeleton[%d,%d]=%r' % (i, j, sk[i, j]))
        if sorted((int(a), int(b)) for a, b in u.undirected_edges(P.copy())) != sorted((i, j) for i in range(p) for j in range(p) if i > j and und(i, j)):
            bad.append('undirected_edges')
        if sorted((int(a), int(b)) for a, b in u.directed_edges(P.copy())) != sorted((i, j) for i in range(p) for j in range(p) if dirc(i, j)):
            bad.append('directed_edges')
        ew = u.edge_weights(P.copy())
        if sorted((int(a), int(b)) for a, b in ew) != sorted((i, j) for i in range(p) for j in range(p) if nz[i][j]) or any(v != P[a, b] for (a, b), v in ew.items()):
            bad.append('edge_weights')
        want = set((i, c, j) for (i, c, j) in G.all_vstructs(p) if dirc(i, c) and dirc(j, c) and not adj(i, j))
        if set((int(a), int(b), int(c)) for a, b, c in u.vstructures(P.copy())) != want:
            bad.append('vstructures')
        mg = u.moral_graph(P.copy())
        for i in range(p):
            for j in range(p):
                married = i != j and any(dirc(i, c) and dirc(j, c) for c in range(p))
                if mg[i, j] != (1 if (adj(i, j) or married) else 0):
                    bad.append('moral_graph[%d,%d]' % (i, j))
        dg = u.degrees(P.copy())
        for i in range(p):
            if dg[i] != sum(1 for j in range(p) if adj(i, j)):
                bad.append('degrees[%d]' % i)
        if bool(u.is_complete(P.copy())) != all(adj(i, j) for i in range(p) for j in range(i + 1, p)):
            bad.append('is_complete')
        for S in I.subsets(I.universe([[1 if P[i][j] != 0 else 0 for j in range(p)] for i in range(p)])):
            if len(S) >= 2:
                ra = u.induced_subgraph(set(S), P.copy())
                for Sarg in (iter(sorted(S)), tuple(sorted(S, reverse=True))):
                    try:
                        if not numpy.array_equal(u.induced_subgraph(Sarg, P.copy()), ra):
                            bad.append('induced_subgraph differs for S given as an iterator / tuple')
                    except Exception as ex:
                        bad.append('induced_subgraph raised %s for S given as an iterator / tuple' % type(ex).__name__)
            r = u.induced_subgraph(set(S), P.copy())
            for i in range(p):
                for j in range(p):
                    if r[i, j] != (P[i, j] if (i in S and j in S) else 0):
                        bad.append('induced_subgraph(%s)[%d,%d]' % (sorted(S), i, j))
            if bool(u.is_clique(set(S), P.copy())) != all(adj(i, j) for i in S for j in S if i < j):
                bad.append('is_clique(%s)' % sorted(S))
    except Exception as ex:
        bad.append('raised %s: %s' % (type(ex).__name__, ex))
    return (len(bad) > 0, "on P=%s (dtype %s): %s" % (P.tolist(), P.dtype, '; '.join(bad[:6]) or 'all definitions satisfied'))
