"""C05 -- Gaussian conditioning and marginalisation are exact."""
import itertools
from fractions import Fraction
import symnp as np
from symx.core import SV, linear_coeffs, atom_index
from harness.common import visibly, Obligation, PathResult, real_sempler, unj, unj_float
from oracles import graph as G

PID = 'C05'

META = dict(
    explanation="NormalDistribution.__init__/marginal/conditional (and utils.matrix_block) are executed on a fully symbolic "
                "mean vector, symmetric covariance matrix and conditioning values (all unconstrained Reals; numpy.linalg.inv is "
                "the exact adjugate/determinant contract stub, with `det != 0` and its sign decided on the path). The result is "
                "characterised WITHOUT computing an inverse: the mean must be affine in x with coefficient matrix B satisfying "
                "B Sigma_XX = Sigma_YX, equal mu_Y + B (x - mu_X), and the covariance must equal Sigma_YY - B Sigma_XY. All "
                "equalities are cross-multiplied polynomial identities decided by z3 for every Sigma, mu, x at once.",
    bounds=dict(quick="p <= 3: every ordered pair of disjoint index lists (Y, X) in list / array / scalar argument styles; marginal, "
                      "conditioning on nothing, composition of marginals, two-step vs joint conditioning; error contract. p = 4: |Y| <= 2",
                thorough="p = 4 all ordered disjoint (Y, X); p = 5 with |Y| <= 2, |X| <= 2"),
    outside=["floating-point rounding (reals stand for floats); singular conditioning blocks (LinAlgError path is outside the statement)",
             "index lists with repeated entries", "p > 5"],
    stubs=["numpy -> symnp", "numpy.linalg.inv -> exact adjugate/determinant contract stub"],
    assumptions=["z3 sound on polynomial identities (QF_NRA)"],
)


def sym_dist(ctx, p):
    e = ctx.eng
    nd = ctx.mod('sempler.normal_distribution')
    mk = e.int if ctx.params.get('dtype') == 'int' else e.real
    mu = [mk('m_%d' % i) for i in range(p)]
    S = [[None] * p for _ in range(p)]
    for i in range(p):
        for j in range(i, p):
            # cube flag 'diag': concrete zero covariances (used by C06's p = 4 unsorted-list cubes)
            S[i][j] = S[j][i] = (0 if (ctx.params.get('diag') and i != j) else mk('s_%d_%d' % (i, j)))
    dist = nd.NormalDistribution(np.array(mu), np.array(S))
    return nd, dist, mu, S


def styled(idx, style):
    if style == 'array':
        return np.array(idx, dtype=int) if len(idx) else np.array([], dtype=int)
    if style == 'scalar' and len(idx) == 1:
        return idx[0]
    return list(idx)


def styled_x(vals, style):
    if style == 'array':
        return np.array(vals) if len(vals) else np.array([])
    if style == 'scalar' and len(vals) == 1:
        return vals[0]
    return list(vals)


def eq_all(name, got, want, cl):
    """elementwise equality clauses between two same-shaped nested lists"""
    for idx, (g, w) in enumerate(zip(_flat(got), _flat(want))):
        cl.append(('%s[%d]' % (name, idx), g == w, visibly(g, w)))


def _flat(x):
    if isinstance(x, np.ndarray):
        return x._flat()
    out = []
    for y in x:
        if isinstance(y, (list, tuple, np.ndarray)):
            out.extend(_flat(y))
        else:
            out.append(y)
    return out


def cond_clauses(cl, c, mu, S, Y, X, xv):
    """pointwise, inverse-free characterisation of the conditional Gaussian (precision form):
    with J = Y + X, Adj = adjugate(Sigma_JJ) = det(Sigma_JJ) * K,
        Adj_YY (mean - mu_Y) + Adj_YX (x - mu_X) = 0     and     Adj_YY cov = det(Sigma_JJ) I
    whenever det(Sigma_JJ) != 0 (true for every positive-definite Sigma)."""
    from symnp.linalg import _minor_det
    ny, nx = len(Y), len(X)
    ok = c.mean.shape == (ny,) and c.covariance.shape == (ny, ny) and c.p == ny
    cl.append(('conditional has one variable per requested index, in the requested order', ok))
    if not ok:
        return
    J = list(Y) + list(X)
    n = len(J)
    M = [[S[J[a]][J[b]] for b in range(n)] for a in range(n)]
    idx = tuple(range(n))
    memo = {}
    det = _minor_det(M, idx, idx, memo)
    guard = G.T(det != 0)

    def adj(i, j):
        rows = idx[:j] + idx[j + 1:]
        cols = idx[:i] + idx[i + 1:]
        v = _minor_det(M, rows, cols, memo)
        return -v if (i + j) % 2 else v
    for a in range(ny):
        lhs = 0
        for b in range(ny):
            lhs = lhs + adj(a, b) * (c.mean[b] - mu[Y[b]])
        for k in range(nx):
            lhs = lhs + adj(a, ny + k) * (xv[k] - mu[X[k]])
        cl.append(('precision form of the conditional mean, row %d' % a, G.Implies(guard, lhs == 0), visibly(lhs, 0)))
        for b in range(ny):
            lhs = 0
            for t in range(ny):
                lhs = lhs + adj(a, t) * c.covariance[t, b]
            cl.append(('precision form of the conditional covariance (%d,%d)' % (a, b), G.Implies(guard, lhs == (det if a == b else 0)), visibly(lhs, (det if a == b else 0))))


def h_cond(ctx):
    p, Y, X, style = ctx.params['p'], ctx.params['Y'], ctx.params['X'], ctx.params['style']
    e = ctx.eng
    nd, dist, mu, S = sym_dist(ctx, p)
    xv = [e.real('x_%d' % k) for k in range(len(X))]
    cl = []
    sym = None
    try:
        c = dist.conditional(styled(Y, style), styled(X, style), styled_x(xv, style))
        outcome = 'returned'
        if len(X) == 0:
            cl.append(('conditioning on nothing = marginal: shape', c.mean.shape == (len(Y),) and c.covariance.shape == (len(Y), len(Y))))
            if cl[-1][1]:
                for a in range(len(Y)):
                    cl.append(('mean[%d] = mu[Y[%d]]' % (a, a), c.mean[a] == mu[Y[a]]))
                    for b in range(len(Y)):
                        cl.append(('cov[%d,%d] = Sigma[Y,Y]' % (a, b), c.covariance[a, b] == S[Y[a]][Y[b]]))
        else:
            cond_clauses(cl, c, mu, S, Y, X, xv)
        cl.append(('result does not alias the model', not np.shares_memory(c.mean, dist.mean) and not np.shares_memory(c.covariance, dist.covariance)))
        sym = ['ok', c.mean.tolist(), c.covariance.tolist()]
    except np.linalg.LinAlgError:
        outcome = 'singular conditioning block (outside the statement)'
        sym = ['LinAlgError']
    except Exception as ex:
        outcome = 'raised ' + type(ex).__name__
        cl.append(('conditional must not raise for disjoint X, Y with matching x (%s: %s)' % (type(ex).__name__, ex), False))
        sym = [type(ex).__name__]
    return PathResult(outcome, cl, inputs=dict(mu=mu, S=S, x=xv, Y=Y, X=X, style=style, dtype=ctx.params.get('dtype', 'float')), call='conditional',
                      info=dict(Y=Y, X=X, style=style), diff=(None if outcome.startswith('singular') else (_real_cond, sym, dict(nice=True, tol=1e-6))))


def h_cond_history(ctx):
    """several conditional() queries on ONE distribution object: the same conditioning set in a different order,
    a different set, and the first query again - each result must be the exact conditional (no dependence on earlier calls)"""
    p, Y, X, perm, style = ctx.params['p'], ctx.params['Y'], ctx.params['X'], ctx.params['perm'], ctx.params['style']
    e = ctx.eng
    nd, dist, mu, S = sym_dist(ctx, p)
    xv = [e.real('x_%d' % k) for k in range(len(X))]
    X2 = [X[k] for k in perm]
    xv2 = [xv[k] for k in perm]
    X3 = X[:-1]
    xv3 = xv[:-1]
    cl = []
    try:
        seq = [(X, xv), (X2, xv2), (X3, xv3), (X, xv)]
        for n, (Xs, xs) in enumerate(seq):
            c = dist.conditional(styled(Y, style), styled(Xs, style), styled_x(xs, style))
            sub = []
            if len(Xs) == 0:
                sub.append(('shape', c.mean.shape == (len(Y),)))
                for a in range(len(Y)):
                    sub.append(('mean', c.mean[a] == mu[Y[a]]))
            else:
                cond_clauses(sub, c, mu, S, Y, Xs, xs)
            for item in sub:
                cl.append(('query %d on the same object (X = %s): %s' % (n + 1, Xs, item[0]),) + tuple(item[1:]))
        outcome = 'returned'
    except np.linalg.LinAlgError:
        outcome = 'singular conditioning block (outside the statement)'
    except Exception as ex:
        outcome = 'raised ' + type(ex).__name__
        cl.append(('conditional must not raise (%s: %s)' % (type(ex).__name__, ex), False))
    return PathResult(outcome, cl, inputs=dict(mu=mu, S=S, x=xv, Y=Y, X=X, perm=perm, style=style, dtype='float'), call='history',
                      info=dict(Y=Y, X=X, perm=perm, style=style))


def _np_dist(inp):
    import numpy
    s = real_sempler()
    if inp.get('dtype') == 'int':
        return s.NormalDistribution(numpy.array([int(unj(v)) for v in inp['mu']], dtype=int),
                                    numpy.array([[int(unj(v)) for v in r] for r in inp['S']], dtype=int))
    return s.NormalDistribution(numpy.array(unj_float(inp['mu']), dtype=float), numpy.array(unj_float(inp['S']), dtype=float))


def _np_style(idx, style, dtype=int):
    import numpy
    if style == 'array':
        return numpy.array(idx, dtype=dtype)
    if style == 'scalar' and len(idx) == 1:
        return idx[0]
    return list(idx)


def _real_cond(inp):
    import numpy
    d = _np_dist(inp)
    try:
        c = d.conditional(_np_style(inp['Y'], inp['style']), _np_style(inp['X'], inp['style']),
                          _np_style(unj_float(inp['x']), inp['style'], float))
        return ['ok', c.mean.tolist(), c.covariance.tolist()]
    except numpy.linalg.LinAlgError:
        return ['LinAlgError']
    except Exception as ex:
        return [type(ex).__name__]


def h_marginal(ctx):
    p, X, style = ctx.params['p'], ctx.params['X'], ctx.params['style']
    nd, dist, mu, S = sym_dist(ctx, p)
    cl = []
    try:
        m = dist.marginal(styled(X, style))
        ok = m.mean.shape == (len(X),) and m.covariance.shape == (len(X), len(X)) and m.p == len(X)
        cl.append(('marginal has one variable per requested index', ok))
        if ok:
            for a in range(len(X)):
                cl.append(('marginal mean[%d] = mu[X[%d]] (requested order)' % (a, a), m.mean[a] == mu[X[a]]))
                for b in range(len(X)):
                    cl.append(('marginal cov[%d,%d] = Sigma[X[a], X[b]]' % (a, b), m.covariance[a, b] == S[X[a]][X[b]]))
        cl.append(('marginal does not alias the model', not np.shares_memory(m.mean, dist.mean) and not np.shares_memory(m.covariance, dist.covariance)))
        # composition: marginal(X).marginal(J) = marginal(X[J]) for every ordered sub-list J
        for r in range(0, min(len(X), 2) + 1):
            for J in itertools.permutations(range(len(X)), r):
                if r == 0:
                    continue
                mm = m.marginal(list(J))
                d2 = dist.marginal([X[j] for j in J])
                for a in range(r):
                    cl.append(('marginals compose: mean', mm.mean[a] == d2.mean[a]))
                    for b in range(r):
                        cl.append(('marginals compose: cov', mm.covariance[a, b] == d2.covariance[a, b]))
        sym = ['ok', m.mean.tolist(), m.covariance.tolist()]
        outcome = 'returned'
    except Exception as ex:
        outcome = 'raised ' + type(ex).__name__
        cl.append(('marginal must not raise (%s: %s)' % (type(ex).__name__, ex), False))
        sym = [type(ex).__name__]
    return PathResult(outcome, cl, inputs=dict(mu=mu, S=S, X=X, style=style), call='marginal', info=dict(X=X, style=style),
                      diff=(_real_marg, sym, dict(nice=True, tol=1e-9)))


def _real_marg(inp):
    d = _np_dist(inp)
    try:
        m = d.marginal(_np_style(inp['X'], inp['style']))
        return ['ok', m.mean.tolist(), m.covariance.tolist()]
    except Exception as ex:
        return [type(ex).__name__]


def h_twostep(ctx):
    p, Y, X1, X2 = ctx.params['p'], ctx.params['Y'], ctx.params['X1'], ctx.params['X2']
    e = ctx.eng
    nd, dist, mu, S = sym_dist(ctx, p)
    x1 = [e.real('x1_%d' % k) for k in range(len(X1))]
    x2 = [e.real('x2_%d' % k) for k in range(len(X2))]
    cl = []
    try:
        joint = dist.conditional(list(Y), list(X1) + list(X2), x1 + x2)
        step1 = dist.conditional(list(Y) + list(X2), list(X1), x1)
        step2 = step1.conditional(list(range(len(Y))), list(range(len(Y), len(Y) + len(X2))), x2)
        for a in range(len(Y)):
            cl.append(('two-step mean[%d] = joint mean' % a, step2.mean[a] == joint.mean[a]))
            for b in range(len(Y)):
                cl.append(('two-step cov[%d,%d] = joint cov' % (a, b), step2.covariance[a, b] == joint.covariance[a, b]))
        outcome = 'returned'
    except np.linalg.LinAlgError:
        outcome = 'singular conditioning block (outside the statement)'
    except ZeroDivisionError:
        outcome = 'singular conditioning block (outside the statement)'
    return PathResult(outcome, cl, inputs=dict(mu=mu, S=S, x1=x1, x2=x2, Y=Y, X1=X1, X2=X2), call='twostep',
                      info=dict(Y=Y, X1=X1, X2=X2))


def h_errors(ctx):
    p = ctx.params['p']
    e = ctx.eng
    nd, dist, mu, S = sym_dist(ctx, p)
    cl = []

    def raises(fn, name):
        try:
            fn()
            cl.append((name, False))
        except ValueError:
            cl.append((name, True))
        except Exception as ex:
            cl.append((name + ' (raised %s instead)' % type(ex).__name__, False))
    xs = [e.real('x_%d' % k) for k in range(p + 1)]
    for i in range(p):
        raises(lambda: dist.conditional([i], [i], [xs[0]]), 'overlapping X and Y raise ValueError')
        raises(lambda: dist.conditional(i, [i] + [j for j in range(p) if j != i], xs[:p]), 'overlapping X and Y raise ValueError')
        for j in range(p):
            if i != j:
                raises(lambda: dist.conditional([i], [j], xs[:2]), 'len(X) != len(x) raises ValueError')
                raises(lambda: dist.conditional([i], [j], []), 'len(X) != len(x) raises ValueError')
    raises(lambda: nd.NormalDistribution(np.array(mu[:p] + [xs[0]]), np.array(S)), 'mean / covariance size mismatch raises ValueError')
    if p > 1:
        raises(lambda: nd.NormalDistribution(np.array(mu[:p - 1]), np.array(S)), 'mean / covariance size mismatch raises ValueError')
    return PathResult('checked', cl, inputs=dict(mu=mu, S=S), call='errors', info=dict(p=p))


def _pairs(p, maxy=None, maxx=None):
    out = []
    for ny in range(1, p + 1):
        if maxy is not None and ny > maxy:
            continue
        for Y in itertools.permutations(range(p), ny):
            rest = [i for i in range(p) if i not in Y]
            for nx in range(0, len(rest) + 1):
                if maxx is not None and nx > maxx:
                    continue
                for X in itertools.permutations(rest, nx):
                    out.append((list(Y), list(X)))
    return out


def obligations(tier):
    ob = []
    cubes = []
    for p in (1, 2, 3):
        for (Y, X) in _pairs(p):
            styles = ['list', 'array'] + (['scalar'] if len(Y) == 1 and len(X) <= 1 else [])
            for st in styles:
                cubes.append(dict(p=p, Y=Y, X=X, style=st))
    ob.append(Obligation('conditional_p123', h_cond, cubes, "conditional(Y, X, x) for every ordered pair of disjoint index lists, p <= 3, all argument styles",
                         expect=('returned',), weight=3))
    ci = [dict(p=p, Y=Y, X=X, style='list', dtype='int') for p in (2, 3) for (Y, X) in _pairs(p) if X]
    ob.append(Obligation('conditional_intcov', h_cond, ci, "conditional(Y, X, x) on integer-typed mean / covariance arrays (symbolic Ints), real x, p <= 3",
                         expect=('returned',), weight=3))
    c4 = [dict(p=4, Y=Y, X=X, style='list') for (Y, X) in _pairs(4, 2 if tier == 'quick' else None, 3 if tier == 'quick' else None)]
    ob.append(Obligation('conditional_p4', h_cond, c4, "conditional(Y, X, x), p = 4" + (" with |Y| <= 2" if tier == 'quick' else " all ordered disjoint pairs"),
                         expect=('returned',), weight=6, timeout_ms=120000))
    mc = []
    for p in (1, 2, 3, 4):
        for n in range(1, p + 1):
            for X in itertools.permutations(range(p), n):
                if p == 4 and n > 3 and tier == 'quick':
                    continue
                for st in ['list', 'array'] + (['scalar'] if n == 1 else []):
                    mc.append(dict(p=p, X=list(X), style=st))
    ob.append(Obligation('marginal', h_marginal, mc, "marginal(X) and composition of marginals for every ordered index list, p <= 4",
                         expect=('returned',), weight=2))
    ts = []
    for p in (2, 3, 4):
        for Y in itertools.permutations(range(p), 1):
            rest = [i for i in range(p) if i not in Y]
            for n1 in range(1, len(rest)):
                for X1 in itertools.permutations(rest, n1):
                    rest2 = [i for i in rest if i not in X1]
                    for n2 in range(1, len(rest2) + 1):
                        for X2 in itertools.permutations(rest2, n2):
                            if p == 4 and (n1 + n2 > 2) and tier == 'quick':
                                continue
                            ts.append(dict(p=p, Y=list(Y), X1=list(X1), X2=list(X2)))
    if tier == 'thorough':
        for Y in itertools.permutations(range(4), 2):
            rest = [i for i in range(4) if i not in Y]
            ts.append(dict(p=4, Y=list(Y), X1=[rest[0]], X2=[rest[1]]))
    ob.append(Obligation('two_step', h_twostep, ts, "conditioning in two steps equals conditioning jointly",
                         expect=('returned',), weight=8, timeout_ms=180000))
    hc = []
    for pp in (3, 4):
        for Y in ([0], [pp - 1]):
            rest = [i for i in range(pp) if i not in Y]
            for X in ([rest[0], rest[1]], [rest[1], rest[0]]) + (([rest[2], rest[0], rest[1]],) if pp == 4 else ()):
                for perm in itertools.permutations(range(len(X))):
                    if list(perm) != list(range(len(X))):
                        hc.append(dict(p=pp, Y=Y, X=list(X), perm=list(perm), style='list' if (len(hc) % 2 == 0) else 'array'))
    ob.append(Obligation('conditional_history', h_cond_history, hc, "a sequence of conditional() queries on one object: permuted X, a subset, the first query again",
                         expect=('returned',), weight=6))
    ob.append(Obligation('errors', h_errors, [dict(p=p) for p in (1, 2, 3)], "ValueError contract: overlapping X/Y, len(X) != len(x), size mismatch at construction",
                         expect=('checked',), weight=1))
    if tier == 'thorough':
        c5 = [dict(p=5, Y=Y, X=X, style='list') for (Y, X) in _pairs(5, 2, 2)]
        ob.append(Obligation('conditional_p5', h_cond, c5, "conditional(Y, X, x), p = 5 with |Y|,|X| <= 2", expect=('returned',), weight=10, timeout_ms=180000))
    return ob


# ---- replay: exact rational arithmetic -------------------------------------------

def _fr(x):
    v = unj(x)
    return Fraction(v) if not isinstance(v, Fraction) else v


def _solve_frac(A, Bm):
    """solve A Z = Bm over Fractions (Gaussian elimination); returns None if singular"""
    n = len(A)
    M = [list(A[i]) + list(Bm[i]) for i in range(n)]
    for c in range(n):
        piv = next((r for r in range(c, n) if M[r][c] != 0), None)
        if piv is None:
            return None
        M[c], M[piv] = M[piv], M[c]
        pv = M[c][c]
        M[c] = [v / pv for v in M[c]]
        for r in range(n):
            if r != c and M[r][c] != 0:
                f = M[r][c]
                M[r] = [a - f * b for a, b in zip(M[r], M[c])]
    return [row[n:] for row in M]


def exact_conditional(mu, S, Y, X, x):
    if not X:
        return [mu[i] for i in Y], [[S[a][b] for b in Y] for a in Y]
    Sxx = [[S[a][b] for b in X] for a in X]
    Sxy = [[S[a][b] for b in Y] for a in X]
    Z = _solve_frac(Sxx, [row + [x[k] - mu[X[k]]] for k, row in enumerate(Sxy)])
    if Z is None:
        return None
    ny = len(Y)
    mean = [mu[Y[a]] + sum(S[Y[a]][X[k]] * Z[k][ny] for k in range(len(X))) for a in range(ny)]
    cov = [[S[Y[a]][Y[b]] - sum(S[Y[a]][X[k]] * Z[k][b] for k in range(len(X))) for b in range(ny)] for a in range(ny)]
    return mean, cov


def _close(a, b, tol=1e-7):
    return abs(float(a) - float(b)) <= tol * max(1.0, abs(float(a)), abs(float(b)))


def replay(rec):
    inp = rec['inputs']
    call = rec['call']
    mu = [_fr(v) for v in inp['mu']]
    S = [[_fr(v) for v in r] for r in inp['S']]
    if call == 'conditional':
        x = [_fr(v) for v in inp['x']]
        r = _real_cond(inp)
        ex = exact_conditional(mu, S, inp['Y'], inp['X'], x)
        if ex is None:
            return (False, 'singular conditioning block')
        if r[0] != 'ok':
            return (True, 'conditional(%s, %s, %s) raised %s' % (inp['Y'], inp['X'], inp['x'], r[0]))
        import numpy
        bad = (numpy.shape(r[1]) != (len(inp['Y']),)) or any(not _close(a, b) for a, b in zip(r[1], ex[0])) or \
            any(not _close(a, b) for ra, rb in zip(r[2], ex[1]) for a, b in zip(ra, rb))
        return (bad, 'conditional(Y=%s, X=%s, x=%s) on mu=%s Sigma=%s returned mean %s cov %s; exact: mean %s cov %s'
                % (inp['Y'], inp['X'], inp['x'], inp['mu'], inp['S'], r[1], r[2], [float(v) for v in ex[0]], [[float(v) for v in rr] for rr in ex[1]]))
    if call == 'history':
        import numpy
        d = _np_dist(inp)
        X, perm, Y = inp['X'], inp['perm'], inp['Y']
        x = [_fr(v) for v in inp['x']]
        seq = [(X, x), ([X[k] for k in perm], [x[k] for k in perm]), (X[:-1], x[:-1]), (X, x)]
        bad = []
        for n, (Xs, xs) in enumerate(seq):
            ex = exact_conditional(mu, S, Y, Xs, xs) if Xs else ([mu[a] for a in Y], [[S[a][b] for b in Y] for a in Y])
            if ex is None:
                return (False, 'singular conditioning block')
            try:
                c = d.conditional(_np_style(Y, inp['style']), _np_style(Xs, inp['style']), _np_style([float(v) for v in xs], inp['style'], float))
            except Exception as e2:
                bad.append('query %d raised %s' % (n + 1, type(e2).__name__))
                continue
            if any(not _close(a, b) for a, b in zip(c.mean.tolist(), ex[0])) or any(not _close(a, b) for ra, rb in zip(c.covariance.tolist(), ex[1]) for a, b in zip(ra, rb)):
                bad.append('query %d (X=%s) returned mean %s cov %s, exact mean %s cov %s' % (n + 1, Xs, c.mean.tolist(), c.covariance.tolist(),
                                                                                        [float(v) for v in ex[0]], [[float(v) for v in r] for r in ex[1]]))
        return (len(bad) > 0, 'conditional queries on one object, mu=%s Sigma=%s: %s' % (inp['mu'], inp['S'], '; '.join(bad[:2]) or 'all exact'))
    if call == 'marginal':
        r = _real_marg(inp)
        X = inp['X']
        if r[0] != 'ok':
            return (True, 'marginal(%s) raised %s' % (X, r[0]))
        bad = len(r[1]) != len(X) or any(not _close(r[1][a], mu[X[a]]) for a in range(len(X))) or \
            any(not _close(r[2][a][b], S[X[a]][X[b]]) for a in range(len(X)) for b in range(len(X)))
        if not bad:
            # composition
            d = _np_dist(inp)
            m = d.marginal(list(X))
            for rr in (1, 2):
                for J in itertools.permutations(range(len(X)), rr):
                    mm = m.marginal(list(J))
                    if any(not _close(mm.mean[a], mu[X[J[a]]]) for a in range(rr)) or any(
                            not _close(mm.covariance[a][b], S[X[J[a]]][X[J[b]]]) for a in range(rr) for b in range(rr)):
                        bad = True
        return (bad, 'marginal(%s) on mu=%s Sigma=%s returned mean %s cov %s' % (X, inp['mu'], inp['S'], r[1], r[2]))
    if call == 'twostep':
        d = _np_dist(inp)
        Y, X1, X2 = inp['Y'], inp['X1'], inp['X2']
        x1, x2 = unj_float(inp['x1']), unj_float(inp['x2'])
        try:
            joint = d.conditional(list(Y), list(X1) + list(X2), x1 + x2)
            s1 = d.conditional(list(Y) + list(X2), list(X1), x1)
            s2 = s1.conditional(list(range(len(Y))), list(range(len(Y), len(Y) + len(X2))), x2)
        except Exception as ex:
            return (False, 'raised %s' % type(ex).__name__)
        ex = exact_conditional(mu, S, Y, list(X1) + list(X2), [_fr(v) for v in inp['x1']] + [_fr(v) for v in inp['x2']])
        if ex is None:
            return (False, 'singular')
        bad = any(not _close(a, b, 1e-6) for a, b in zip(s2.mean, ex[0])) or any(not _close(a, b, 1e-6) for a, b in zip(joint.mean, ex[0]))
        return (bad, 'two-step mean %s, joint mean %s, exact %s' % (s2.mean.tolist(), joint.mean.tolist(), [float(v) for v in ex[0]]))
    if call == 'errors':
        import numpy
        d = _np_dist(inp)
        p = len(mu)
        bad = []
        def raises(fn, name):
            try:
                fn()
                bad.append(name + ': no exception')
            except ValueError:
                pass
            except Exception as ex:
                bad.append(name + ': ' + type(ex).__name__)
        for i in range(p):
            raises(lambda: d.conditional([i], [i], [0.5]), 'overlap')
            raises(lambda: d.conditional(i, [i] + [j for j in range(p) if j != i], [0.5] * p), 'overlap')
            for j in range(p):
                if i != j:
                    raises(lambda: d.conditional([i], [j], [0.1, 0.2]), 'len mismatch')
                    raises(lambda: d.conditional([i], [j], []), 'len mismatch')
        s = real_sempler()
        raises(lambda: s.NormalDistribution(numpy.zeros(p + 1), numpy.eye(p)), 'ctor mismatch')
        return (len(bad) > 0, '; '.join(bad[:4]) or 'error contract satisfied')
    return (False, 'unknown call')
