"""C07 -- Markov equivalence classes and consistent extensions are enumerated exactly."""
import itertools
import symnp as np
from harness.common import Obligation, PathResult
from harness import inputs as I
from harness.calllog import CallLog, real_replay
from oracles import graph as G
from oracles import classes as K

PID = 'C07'

META = dict(
    explanation="mec (with and without the chain shortcut), all_dags and is_consistent_extension (with 0/1 and with real-weighted candidate DAGs) are executed on every DAG "
                "pattern with symbolic real weights (the chain test `A == chain_graph(p)` forks on 'all weights equal 1'), on "
                "0/1 DAGs of int and float dtype, and on every binary PDAG with acyclic directed part; the returned stacks are "
                "compared as sets (and for duplicates) with the brute-force class computed from the definition (all acyclic "
                "orientations of the skeleton with the same v-structures / keeping the directed edges).",
    bounds=dict(quick="mec: weighted + binary DAGs p <= 4 (543 patterns); all_dags / is_consistent_extension: binary PDAGs p <= 3 all, p = 4 with <= 4 edges; chain graphs (both directions of the shortcut) p <= 7; wide: all 4-node DAG patterns / 3-node PDAGs embedded at nodes 11,1,9,0 of a 12-node graph",
                thorough="mec: p = 5 all 29,281 DAG patterns (weighted); all_dags / is_consistent_extension: all PDAGs p = 4; chain graphs p <= 9"),
    outside=["p > 5 for general graphs, chain graphs beyond p = 9 (the statement's p = 12 chain is outside the bound)", "max_combinations argument of all_dags"],
    stubs=["numpy -> symnp"],
    assumptions=["z3 sound; symnp agrees with numpy (validated per path against the real library)"],
)


def _cmp_stack(cl, name, r, want):
    if r[0] != 'ok':
        cl.append((name + ' must not raise', False))
        return
    mats, ok01 = K.stack_to_set(r[1])
    cl.append((name + ': entries are 0/1', ok01))
    cl.append((name + ': no member twice', len(set(mats)) == len(mats)))
    cl.append((name + ': exactly the class from the definition', set(mats) == set(want)))


def h_mec_weighted(ctx):
    u = ctx.mod('sempler.utils')
    p = ctx.params['p']
    rows, pat = I.weighted_dag(ctx)
    M = I.arr(rows, 'float')
    M.buf.frozen = True
    want = K.mec(pat)
    log = CallLog('sempler.utils')
    cl = []
    for cc in (True, False):
        _cmp_stack(cl, 'mec(check_chain=%s)' % cc, log.call(u, 'mec', M, cc), want)
    for dt in ('int', 'float', 'bool'):
        B = I.arr(pat, dt)
        _cmp_stack(cl, 'mec(0/1 %s)' % dt, log.call(u, 'mec', B), want)
    return PathResult('checked', cl, inputs=dict(calls=log.inputs(), A=rows), call='mec',
                      info=dict(pattern=[list(r) for r in pat], class_size=len(want)),
                      diff=(real_replay('sempler.utils'), log.symbolic()))


def h_chain(ctx):
    """chain graphs 0 -> 1 -> ... with symbolic weights: shortcut (all weights 1) and general path"""
    u = ctx.mod('sempler.utils')
    e = ctx.eng
    p = ctx.params['p']
    rows = [[0.0] * p for _ in range(p)]
    for i in range(p - 1):
        w = e.real('c_%d' % i)
        e.assume(w != 0)
        rows[i][i + 1] = w
    pat = tuple(tuple(1 if (j == i + 1) else 0 for j in range(p)) for i in range(p))
    M = I.arr(rows, 'float')
    want = K.mec(pat)
    log = CallLog('sempler.utils')
    cl = []
    r = log.call(u, 'mec', M)
    _cmp_stack(cl, 'mec(chain)', r, want)
    r2 = log.call(u, 'chain_graph_MEC', p)
    _cmp_stack(cl, 'chain_graph_MEC', r2, want)
    allone = all(bool(rows[i][i + 1] == 1) for i in range(p - 1))
    return PathResult('shortcut' if allone else 'general', cl, inputs=dict(calls=log.inputs(), A=rows), call='mec',
                      info=dict(chain=p, weights_all_one=allone),
                      diff=(real_replay('sempler.utils'), log.symbolic()))


def _candidates(P, p):
    """DAG / non-DAG candidates for is_consistent_extension(G, P)"""
    nP = K.nzb(P)
    sk = G.c_skeleton(nP)
    cands = list(G.orientations(p, sk))
    # non-extensions: one edge dropped / one extra edge / a 2-cycle (not a DAG)
    extra = []
    for D in cands[:4]:
        edges = [(i, j) for i in range(p) for j in range(p) if D[i][j]]
        if edges:
            i, j = edges[0]
            M = [list(r) for r in D]
            M[i][j] = 0
            extra.append(tuple(tuple(r) for r in M))
        non = [(i, j) for i in range(p) for j in range(p) if i != j and not D[i][j] and not D[j][i]]
        if non:
            i, j = non[0]
            M = [list(r) for r in D]
            M[i][j] = 1
            extra.append(tuple(tuple(r) for r in M))
    if p >= 2:
        M = [[0] * p for _ in range(p)]
        M[0][1] = 1
        M[1][0] = 1
        extra.append(tuple(tuple(r) for r in M))
    seen = set()
    out = []
    for D in cands + extra:
        if D not in seen:
            seen.add(D)
            out.append(D)
    return out


def h_pdag(ctx):
    u = ctx.mod('sempler.utils')
    p = ctx.params['p']
    pat = I.binary_pdag(ctx)
    P = I.arr(pat, 'int')
    P.buf.frozen = True
    E = K.extensions(pat)
    log = CallLog('sempler.utils')
    cl = []
    r = log.call(u, 'all_dags', P)
    _cmp_stack(cl, 'all_dags', r, E)
    for D in _candidates(pat, p):
        Garr = I.arr(D, 'int')
        r = log.call(u, 'is_consistent_extension', Garr, P)
        nD = K.nzb(D)
        if not G.c_is_acyclic(nD):
            cl.append(('is_consistent_extension raises ValueError when G is not a DAG', r == ('exc', 'ValueError')))
        else:
            cl.append(('is_consistent_extension decides membership of the extension set',
                       r[0] == 'ok' and bool(r[1]) == (D in set(E))))
    # the candidate DAG may be a WEIGHT matrix (any real weights) while P is a 0/1 integer matrix
    e = ctx.eng
    gw = {}
    nw = 0
    for D in _candidates(pat, p):
        nD = K.nzb(D)
        if nw >= 4 or not G.c_is_acyclic(nD) or not any(any(r_) for r_ in D):
            continue
        nw += 1
        rowsw = [[0.0] * p for _ in range(p)]
        for i in range(p):
            for j in range(p):
                if D[i][j]:
                    if (i, j) not in gw:
                        gw[(i, j)] = e.real('gw_%d_%d' % (i, j))
                        e.assume(gw[(i, j)] != 0)
                    rowsw[i][j] = gw[(i, j)]
        r = log.call(u, 'is_consistent_extension', I.arr(rowsw, 'float'), P)
        cl.append(('is_consistent_extension decides membership for a weighted DAG G (any non-zero real weights) and a 0/1 integer P',
                   r[0] == 'ok' and bool(r[1]) == (D in set(E))))
    return PathResult('has extension' if E else 'no extension', cl,
                      inputs=dict(calls=log.inputs(), P=[list(r) for r in pat]), call='pdag',
                      info=dict(pattern=[list(r) for r in pat], extensions=len(E)),
                      diff=(real_replay('sempler.utils'), log.symbolic()))


def obligations(tier):
    ob = []
    for p in (1, 2, 3):
        ob.append(Obligation('mec_dag_p%d' % p, h_mec_weighted, I.dag_pair_cubes(p, 2 if p == 3 else 0),
                             "mec on every DAG pattern on %d nodes: symbolic weights (both check_chain), 0/1 int, 0/1 float" % p,
                             expect=('checked',), weight=p))
        ob.append(Obligation('pdag_p%d' % p, h_pdag, I.pair_cubes(p, 2 if p == 3 else 0),
                             "all_dags / is_consistent_extension on every binary PDAG on %d nodes" % p,
                             expect=('has extension',), weight=p))
    ob.append(Obligation('mec_dag_p4', h_mec_weighted, I.dag_pair_cubes(4, 3),
                         "mec on every DAG pattern on 4 nodes", expect=('checked',), weight=30))
    ob.append(Obligation('mec_wide_p12', h_mec_weighted, I.embed_cubes(12, [11, 1, 9, 0], 3, dag=True),
                         "mec on every 4-node DAG pattern embedded at nodes 11, 1, 9, 0 of a 12-node graph", expect=('checked',), weight=60))
    ob.append(Obligation('pdag_wide_p12', h_pdag, I.embed_cubes(12, [11, 1, 9], 1),
                         "all_dags / is_consistent_extension on every 3-node binary PDAG embedded at nodes 11, 1, 9 of a 12-node graph",
                         expect=('has extension',), weight=20))
    chains = range(2, 8) if tier == 'quick' else range(2, 10)
    for p in chains:
        ob.append(Obligation('chain_p%d' % p, h_chain, [dict(p=p)], "mec of the chain graph on %d nodes with symbolic weights" % p,
                             expect=('shortcut', 'general'), weight=p * 2))
    if tier == 'quick':
        ob.append(Obligation('pdag_p4_le4', h_pdag, I.pair_cubes(4, 2, dict(max_edges=4)),
                             "all_dags / is_consistent_extension on binary PDAGs on 4 nodes with <= 4 edges",
                             expect=('has extension', 'no extension'), weight=25))
    else:
        ob.append(Obligation('pdag_p4', h_pdag, I.pair_cubes(4, 3),
                             "all_dags / is_consistent_extension on every binary PDAG on 4 nodes",
                             expect=('has extension', 'no extension'), weight=60))
        ob.append(Obligation('mec_dag_p5', h_mec_weighted, I.dag_pair_cubes(5, 4),
                             "mec on every DAG pattern on 5 nodes", expect=('checked',), weight=100, timeout_ms=120000))
    return ob


def replay(rec):
    import numpy
    from harness.common import real_sempler, unj_float
    s = real_sempler()
    u = s.utils
    inp = rec['inputs']
    bad = []
    try:
        if rec['call'] == 'mec':
            A = numpy.array(unj_float(inp['A']), dtype=float)
            p = len(A)
            pat = tuple(tuple(1 if A[i][j] != 0 else 0 for j in range(p)) for i in range(p))
            want = set(K.mec(pat))
            for args in ((A, True), (A, False), (numpy.array(pat, dtype=int), True), (numpy.array(pat, dtype=float), True)):
                mats, ok01 = K.stack_to_set(u.mec(*args))
                if not ok01 or len(set(mats)) != len(mats) or set(mats) != want:
                    bad.append('mec(%s, check_chain=%s) returned %d graphs (%d distinct), class has %d'
                               % (args[0].tolist(), args[1], len(mats), len(set(mats)), len(want)))
            mats, ok01 = K.stack_to_set(u.chain_graph_MEC(p)) if all(pat[i][j] == (1 if j == i + 1 else 0) for i in range(p) for j in range(p)) else (list(want), True)
            if set(mats) != want:
                bad.append('chain_graph_MEC(%d) differs from the class' % p)
        else:
            P = numpy.array(inp['P'], dtype=int)
            p = len(P)
            pat = tuple(tuple(int(x) for x in r) for r in P.tolist())
            E = K.extensions(pat)
            mats, ok01 = K.stack_to_set(u.all_dags(P.copy()))
            if not ok01 or len(set(mats)) != len(mats) or set(mats) != set(E):
                bad.append('all_dags returned %d graphs (%d distinct), %d extensions exist' % (len(mats), len(set(mats)), len(E)))
            for D in _candidates(pat, p):
                Garr = numpy.array(D, dtype=int)
                try:
                    r = bool(u.is_consistent_extension(Garr, P.copy()))
                    if not G.c_is_acyclic(K.nzb(D)):
                        bad.append('is_consistent_extension accepted non-DAG %s' % (D,))
                    elif r != (D in set(E)):
                        bad.append('is_consistent_extension(%s) = %s' % (D, r))
                except ValueError:
                    if G.c_is_acyclic(K.nzb(D)):
                        bad.append('is_consistent_extension raised ValueError for DAG %s' % (D,))
            # weighted candidates recorded on the path
            from harness.calllog import dec_real
            for fname, eargs in inp.get('calls', []):
                if fname != 'is_consistent_extension':
                    continue
                Gw = dec_real(eargs[0])
                if Gw.dtype.kind != 'f':
                    continue
                D = tuple(tuple(1 if x != 0 else 0 for x in r_) for r_ in Gw.tolist())
                try:
                    r = bool(u.is_consistent_extension(Gw, P.copy()))
                    if r != (D in set(E)):
                        bad.append('is_consistent_extension(weighted G=%s, P) = %s, membership is %s' % (Gw.tolist(), r, D in set(E)))
                except ValueError:
                    bad.append('is_consistent_extension raised ValueError for the weighted DAG %s' % (Gw.tolist(),))
    except Exception as ex:
        bad.append('raised %s: %s' % (type(ex).__name__, ex))
    return (len(bad) > 0, '; '.join(bad[:4]) or 'definitions satisfied')
