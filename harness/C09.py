"""C09 -- Consistent-extension search and Meek orientation are sound and complete."""
import itertools
import symnp as np
from harness.common import Obligation, PathResult
from harness import inputs as I
from harness.calllog import CallLog, real_replay
from oracles import graph as G
from oracles import classes as K

PID = 'C09'

META = dict(
    explanation="pdag_to_dag, has_consistent_extension and maximally_orient (rule_1..rule_4, undirected_edges) are executed on "
                "every binary PDAG with acyclic directed part inside the bounds, including those without an extension. The set "
                "E of consistent extensions is computed by brute force from the definition (acyclic orientations of the "
                "skeleton keeping directed edges and v-structures): pdag_to_dag must return a member of E / raise ValueError "
                "iff E is empty; maximally_orient must return exactly the union graph of E (directed iff all members agree), "
                "which implies same skeleton, directed edges kept, soundness, completeness and an unchanged extension set.",
    bounds=dict(quick="PDAGs p <= 3 all; p = 4 all 3,608 with acyclic directed part; p = 5 'hub' PDAGs (node 0 joined to all other nodes by undirected edges, all 4^6 states of the remaining pairs) for maximally_orient; p = 5 PDAGs with exactly one undirected edge and <= 4 directed edges; wide: 4-node PDAGs with <= 4 edges embedded at nodes 11,1,9,0 of a 12-node graph",
                thorough="as quick plus p = 5 PDAGs in which node 0 has at least 3 undirected edges and p = 5 PDAGs with at most 6 edges"),
    outside=["PDAGs on 5 nodes outside the stated cubes; p > 5", "PDAGs whose directed part is cyclic"],
    stubs=["numpy -> symnp"],
    assumptions=["z3 sound; symnp agrees with numpy (validated per path against the real library)"],
)


def h_pdag(full):
    def fn(ctx):
        u = ctx.mod('sempler.utils')
        p = ctx.params['p']
        pat = I.binary_pdag(ctx)
        P = I.arr(pat, 'int')
        P.buf.frozen = True
        E = K.extensions(pat)
        Eset = set(E)
        log = CallLog('sempler.utils')
        cl = []
        if full:
            r = log.call(u, 'pdag_to_dag', P)
            if not E:
                cl.append(('pdag_to_dag raises ValueError exactly when no extension exists', r == ('exc', 'ValueError')))
            else:
                okk = r[0] == 'ok' and hasattr(r[1], 'shape') and r[1].shape == (p, p)
                cl.append(('pdag_to_dag returns when an extension exists', okk))
                if okk:
                    got = tuple(tuple(1 if x != 0 else 0 for x in row) for row in K.as_tuple(r[1]))
                    cl.append(('pdag_to_dag returns a consistent extension', got in Eset))
            r = log.call(u, 'has_consistent_extension', P)
            cl.append(('has_consistent_extension <=> an extension exists', r[0] == 'ok' and bool(r[1]) == bool(E)))
        if E:
            r = log.call(u, 'maximally_orient', P)
            okk = r[0] == 'ok' and hasattr(r[1], 'shape') and r[1].shape == (p, p)
            cl.append(('maximally_orient returns for a PDAG with an extension', okk))
            if okk:
                got = K.as_tuple(r[1])
                want = K.union_graph(E, p)
                cl.append(('maximally_orient: edge directed exactly when all consistent extensions agree (0/1 entries)',
                           all(got[i][j] == want[i][j] for i in range(p) for j in range(p))))
                cl.append(('maximally_orient does not alias its input', not np.shares_memory(r[1], P)))
        return PathResult('has extension' if E else 'no extension', cl,
                          inputs=dict(calls=log.inputs(), P=[list(r) for r in pat]), call='pdag' if full else 'orient',
                          info=dict(pattern=[list(r) for r in pat], extensions=len(E)),
                          diff=(real_replay('sempler.utils'), log.symbolic()))
    return fn


def hub_cubes(p, hub_state=3, nfix=2):
    """node 0 joined to every other node by an undirected edge; cubes over the first nfix remaining pairs"""
    import itertools
    rest = [(i, j) for i in range(1, p) for j in range(i + 1, p)]
    out = []
    for st in itertools.product((0, 1, 2, 3), repeat=nfix):
        fix = [[0, j, hub_state] for j in range(1, p)] + [[i, j, s] for (i, j), s in zip(rest[:nfix], st)]
        out.append(dict(p=p, fixpairs=fix))
    return out


def obligations(tier):
    ob = []
    for p in (1, 2, 3):
        ob.append(Obligation('pdag_p%d' % p, h_pdag(True), I.pair_cubes(p, 2 if p == 3 else 0),
                             "every binary PDAG (acyclic directed part) on %d nodes" % p, expect=('has extension',), weight=p))
    ob.append(Obligation('pdag_p4', h_pdag(True), I.pair_cubes(4, 3), "every binary PDAG (acyclic directed part) on 4 nodes",
                         expect=('has extension', 'no extension'), weight=40))
    ob.append(Obligation('orient_p5_hub', h_pdag(False), hub_cubes(5, 3, 3),
                         "maximally_orient on 5-node PDAGs where node 0 has undirected edges to all others (Meek rules 3/4 territory)",
                         expect=('has extension', 'no extension'), weight=60))
    ob.append(Obligation('pdag_wide_p12', h_pdag(True), I.embed_cubes(12, [11, 1, 9, 0], 3, extra=dict(max_edges=4)),
                         "4-node binary PDAGs with <= 4 edges embedded at nodes 11, 1, 9, 0 of a 12-node graph",
                         expect=('has extension', 'no extension'), weight=60))
    one_und = []
    for st in itertools.product((0, 1, 2), repeat=2):
        one_und.append(dict(p=5, fixpairs=[[0, 1, 3], [0, 2, st[0]], [0, 3, st[1]]], no_other_undirected=True, max_edges=5))
    ob.append(Obligation('pdag_p5_one_undirected', h_pdag(True), one_und,
                         "5-node PDAGs with exactly one undirected edge (0 - 1) and at most 4 directed edges: forced orientations that close a long directed cycle",
                         expect=('has extension', 'no extension'), weight=80))
    if tier == 'thorough':
        ob.append(Obligation('pdag_p5_le6', h_pdag(True), I.pair_cubes(5, 3, dict(max_edges=6)),
                             "binary PDAGs on 5 nodes with <= 6 edges", expect=('has extension', 'no extension'), weight=100,
                             timeout_ms=120000))
    return ob


def replay(rec):
    import numpy
    from harness.common import real_sempler
    s = real_sempler()
    u = s.utils
    P = numpy.array(rec['inputs']['P'], dtype=int)

    def ro():
        # a correct function never writes to its argument: with a read-only copy a write shows up as an exception
        c = P.copy()
        c.setflags(write=False)
        return c
    p = len(P)
    pat = tuple(tuple(int(x) for x in r) for r in P.tolist())
    E = K.extensions(pat)
    bad = []
    try:
        if rec['call'] == 'pdag':
            try:
                g = u.pdag_to_dag(ro())
                got = tuple(tuple(1 if x != 0 else 0 for x in r) for r in g.tolist())
                if not E:
                    bad.append('pdag_to_dag returned %s although no extension exists' % (got,))
                elif got not in set(E):
                    bad.append('pdag_to_dag returned %s which is not a consistent extension' % (got,))
            except ValueError:
                if E:
                    bad.append('pdag_to_dag raised ValueError although %d extensions exist' % len(E))
            if bool(u.has_consistent_extension(ro())) != bool(E):
                bad.append('has_consistent_extension wrong')
        if E:
            m = u.maximally_orient(ro())
            want = K.union_graph(E, p)
            if m.shape != (p, p) or any(m[i][j] != want[i][j] for i in range(p) for j in range(p)):
                bad.append('maximally_orient(%s) = %s but the extensions agree exactly on %s' % (P.tolist(), m.tolist(), [list(r) for r in want]))
    except Exception as ex:
        bad.append('raised %s: %s' % (type(ex).__name__, ex))
    return (len(bad) > 0, '; '.join(bad[:3]) or 'definitions satisfied')
