"""C10 -- Interventional equivalence classes and I-CPDAGs are exact."""
import symnp as np
from harness.common import Obligation, PathResult
from harness import inputs as I
from harness.calllog import CallLog, real_replay
from oracles import graph as G
from oracles import classes as K

PID = 'C10'

META = dict(
    explanation="imec (chain shortcut and general path), dag_to_icpdag and pdag_to_icpdag are executed on every DAG pattern with "
                "symbolic real weights (and 0/1 copies) x every target set I inside the bounds. The I-MEC is computed by brute "
                "force from the definition (members of the MEC in which every target keeps the parents it has in A); imec must "
                "return exactly that set, each member once; dag_to_icpdag must be its union graph (directed iff all members "
                "agree) - which makes it the same for every member, gives the MEC/CPDAG for I = {} and {A} for I = all nodes, "
                "and monotonicity in I.",
    bounds=dict(quick="DAGs p <= 3 x all I; p = 4 x all I (543 x 16 = 8,688 pairs); chain graphs p <= 6 x all I with symbolic weights; pdag_to_icpdag on binary PDAGs p <= 3 x all I; wide: 3-node DAG patterns embedded at nodes 11,1,9 of a 12-node graph x |I| <= 2 (4-node patterns in the thorough tier)",
                thorough="as quick plus p = 5 DAGs with <= 5 edges x |I| <= 1 and pdag_to_icpdag on all PDAGs p = 4 x all I"),
    outside=["p = 5 with |I| >= 2 or more than 5 edges; p > 5; chain graphs beyond p = 6"],
    stubs=["numpy -> symnp"],
    assumptions=["z3 sound; symnp agrees with numpy (validated per path against the real library)"],
)


def _cmp_stack(cl, name, r, want):
    if r[0] != 'ok':
        cl.append((name + ' must not raise', False))
        return
    mats, ok01 = K.stack_to_set(r[1])
    cl.append((name + ': entries are 0/1', ok01))
    cl.append((name + ': no member twice', len(set(mats)) == len(mats)))
    cl.append((name + ': exactly the I-equivalence class from the definition', set(mats) == set(want)))


def _cmp_matrix(cl, name, r, want, p):
    if r[0] != 'ok':
        cl.append((name + ' must not raise', False))
        return
    M = r[1]
    good = hasattr(M, 'shape') and M.shape == (p, p)
    cl.append((name + ' shape', good))
    if good:
        got = K.as_tuple(M)
        cl.append((name + ' is the essential graph of the I-equivalence class', all(got[i][j] == want[i][j] for i in range(p) for j in range(p))))


def _targets(p, maxI, pat=None):
    nodes = range(p) if pat is None else I.universe(pat)
    return [set(S) for S in I.subsets(nodes) if maxI is None or len(S) <= maxI]


def h_dag(ctx):
    u = ctx.mod('sempler.utils')
    p = ctx.params['p']
    rows, pat = I.weighted_dag(ctx)
    M = I.arr(rows, 'float')
    M.buf.frozen = True
    B = I.arr(pat, 'int')
    log = CallLog('sempler.utils')
    cl = []
    for T in _targets(p, ctx.params.get('maxI'), pat):
        want = K.imec(pat, T)
        _cmp_stack(cl, 'imec(weighted, %s)' % sorted(T), log.call(u, 'imec', M, set(T)), want)
        _cmp_stack(cl, 'imec(0/1, %s, check_chain=False)' % sorted(T), log.call(u, 'imec', B, set(T), False), want)
        _cmp_matrix(cl, 'dag_to_icpdag(weighted, %s)' % sorted(T), log.call(u, 'dag_to_icpdag', M, set(T)), K.union_graph(want, p), p)
    r = log.call(u, 'imec', M, {p})
    cl.append(('imec raises ValueError for targets outside [p]', r == ('exc', 'ValueError')))
    return PathResult('checked', cl, inputs=dict(calls=log.inputs(), A=rows, maxI=ctx.params.get('maxI')), call='dag',
                      info=dict(pattern=[list(r) for r in pat]),
                      diff=(real_replay('sempler.utils'), log.symbolic()))


def h_chain(ctx):
    u = ctx.mod('sempler.utils')
    e = ctx.eng
    p = ctx.params['p']
    rows = [[0.0] * p for _ in range(p)]
    for i in range(p - 1):
        w = e.real('c_%d' % i)
        e.assume(w != 0)
        rows[i][i + 1] = w
    pat = tuple(tuple(1 if (j == i + 1) else 0 for j in range(p)) for i in range(p))
    M = I.arr(rows, 'float')
    log = CallLog('sempler.utils')
    cl = []
    for T in _targets(p, None, pat):
        want = K.imec(pat, T)
        _cmp_stack(cl, 'imec(chain, %s)' % sorted(T), log.call(u, 'imec', M, set(T)), want)
    allone = all(bool(rows[i][i + 1] == 1) for i in range(p - 1))
    if allone:
        for T in _targets(p, None, pat):
            _cmp_stack(cl, 'chain_graph_IMEC(%s)' % sorted(T), log.call(u, 'chain_graph_IMEC', M, set(T)), K.imec(pat, T))
    return PathResult('shortcut' if allone else 'general', cl, inputs=dict(calls=log.inputs(), A=rows, maxI=None), call='dag',
                      info=dict(chain=p, weights_all_one=allone), diff=(real_replay('sempler.utils'), log.symbolic()))


def h_pdag(ctx):
    u = ctx.mod('sempler.utils')
    p = ctx.params['p']
    pat = I.binary_pdag(ctx)
    P = I.arr(pat, 'int')
    P.buf.frozen = True
    E = K.extensions(pat)
    log = CallLog('sempler.utils')
    cl = []
    for T in _targets(p, None, pat):
        r = log.call(u, 'pdag_to_icpdag', P, set(T))
        und_at_target = any(pat[t][j] and pat[j][t] for t in T for j in range(p))
        if und_at_target or not E:
            cl.append(('pdag_to_icpdag(%s) raises ValueError for undirected edges at a target (or no extension)' % sorted(T),
                       r == ('exc', 'ValueError')))
        else:
            want = K.union_graph(K.imec(E[0], T), p)
            _cmp_matrix(cl, 'pdag_to_icpdag(%s)' % sorted(T), r, want, p)
    return PathResult('has extension' if E else 'no extension', cl, inputs=dict(calls=log.inputs(), P=[list(r) for r in pat]),
                      call='pdag', info=dict(pattern=[list(r) for r in pat]),
                      diff=(real_replay('sempler.utils'), log.symbolic()))


def obligations(tier):
    ob = []
    for p in (1, 2, 3):
        ob.append(Obligation('dag_p%d' % p, h_dag, I.dag_pair_cubes(p, 2 if p == 3 else 0),
                             "imec / dag_to_icpdag on every DAG pattern on %d nodes x every target set" % p, expect=('checked',), weight=p))
        ob.append(Obligation('pdag_p%d' % p, h_pdag, I.pair_cubes(p, 2 if p == 3 else 0),
                             "pdag_to_icpdag on every binary PDAG on %d nodes x every target set" % p, expect=('has extension',), weight=p))
    ob.append(Obligation('dag_p4', h_dag, I.dag_pair_cubes(4, 3), "imec / dag_to_icpdag on every DAG pattern on 4 nodes x every target set",
                         expect=('checked',), weight=60))
    for p in range(2, 7):
        ob.append(Obligation('chain_p%d' % p, h_chain, [dict(p=p)], "imec of the chain graph on %d nodes (symbolic weights) x every target set" % p,
                             expect=('shortcut', 'general'), weight=p * 3))
    if tier == 'quick':
        ob.append(Obligation('dag_wide_p12', h_dag, I.embed_cubes(12, [11, 1, 9], 3, dag=True, extra=dict(maxI=2)),
                             "imec / dag_to_icpdag on every 3-node DAG pattern embedded at nodes 11, 1, 9 of a 12-node graph x target sets of size <= 2",
                             expect=('checked',), weight=40))
    else:
        ob.append(Obligation('dag_wide_p12', h_dag, I.embed_cubes(12, [11, 1, 9, 0], 3, dag=True, extra=dict(maxI=2)),
                             "imec / dag_to_icpdag on every 4-node DAG pattern embedded at nodes 11, 1, 9, 0 of a 12-node graph x target sets of size <= 2",
                             expect=('checked',), weight=80))
    if tier == 'thorough':
        ob.append(Obligation('dag_p5_I1', h_dag, I.dag_pair_cubes(5, 4, dict(maxI=1, max_edges=5)),
                             "imec / dag_to_icpdag on every DAG pattern on 5 nodes with <= 5 edges x |I| <= 1", expect=('checked',), weight=200, timeout_ms=120000))
        ob.append(Obligation('pdag_p4', h_pdag, I.pair_cubes(4, 3), "pdag_to_icpdag on every binary PDAG on 4 nodes x every target set",
                             expect=('has extension', 'no extension'), weight=100))
    return ob


def replay(rec):
    import numpy
    from harness.common import real_sempler, unj_float
    s = real_sempler()
    u = s.utils
    inp = rec['inputs']
    bad = []
    try:
        if rec['call'] == 'dag':
            A = numpy.array(unj_float(inp['A']), dtype=float)
            p = len(A)
            pat = tuple(tuple(1 if A[i][j] != 0 else 0 for j in range(p)) for i in range(p))
            B = numpy.array(pat, dtype=int)
            for T in _targets(p, inp.get('maxI'), pat):
                want = set(K.imec(pat, T))
                for nm, args in (('imec(weighted)', (A.copy(), set(T))), ('imec(0/1, no shortcut)', (B.copy(), set(T), False))):
                    mats, ok01 = K.stack_to_set(u.imec(*args))
                    if not ok01 or len(mats) != len(set(mats)) or set(mats) != want:
                        bad.append('%s for A=%s I=%s returned %d graphs (%d distinct); the class has %d' % (nm, A.tolist(), sorted(T), len(mats), len(set(mats)), len(want)))
                got = u.dag_to_icpdag(A.copy(), set(T))
                w = K.union_graph(tuple(want), p)
                if got.shape != (p, p) or any(got[i][j] != w[i][j] for i in range(p) for j in range(p)):
                    bad.append('dag_to_icpdag(A=%s, I=%s) = %s, expected %s' % (A.tolist(), sorted(T), got.tolist(), [list(r) for r in w]))
            try:
                u.imec(A.copy(), {p})
                bad.append('imec accepted a target outside [p]')
            except ValueError:
                pass
        else:
            P = numpy.array(inp['P'], dtype=int)
            p = len(P)
            pat = tuple(tuple(int(x) for x in r) for r in P.tolist())
            E = K.extensions(pat)
            for T in _targets(p, None, pat):
                und = any(pat[t][j] and pat[j][t] for t in T for j in range(p))
                try:
                    got = u.pdag_to_icpdag(P.copy(), set(T))
                    if und or not E:
                        bad.append('pdag_to_icpdag(P=%s, I=%s) did not raise' % (P.tolist(), sorted(T)))
                    else:
                        w = K.union_graph(K.imec(E[0], T), p)
                        if any(got[i][j] != w[i][j] for i in range(p) for j in range(p)):
                            bad.append('pdag_to_icpdag(P=%s, I=%s) = %s expected %s' % (P.tolist(), sorted(T), got.tolist(), [list(r) for r in w]))
                except ValueError:
                    if not und and E:
                        bad.append('pdag_to_icpdag(P=%s, I=%s) raised ValueError' % (P.tolist(), sorted(T)))
    except Exception as ex:
        bad.append('raised %s: %s' % (type(ex).__name__, ex))
    return (len(bad) > 0, '; '.join(bad[:3]) or 'definitions satisfied')
