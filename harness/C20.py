"""C20 -- Noise factories draw n values from the documented law."""
import symnp as np
from symx.core import SV, linear_coeffs, atom_index
from harness.common import Obligation, PathResult, real_sempler, unj
from oracles import graph as G

PID = 'C20'

META = dict(
    explanation="noise.normal / uniform / laplace / zero and functions.null are executed with symbolic parameters and symbolic seed. "
                "numpy's global generator is the contract stub of symnp.random (normal = loc + scale*Z, uniform = low + (high-low)*U "
                "with 0 <= U < 1, laplace = loc + scale*E; Z/U/E uninterpreted variates of (state, draw number, index)). Clauses: "
                "1-d result of length n; entry i is affine in the i-th variate only, with intercept `mean`/`lo` and slope c where "
                "c >= 0 and c*c = var (normal), hi - lo (uniform), scale (laplace) - i.e. the documented mean and variance; uniform "
                "draws lie in [lo, hi); zero() is identically 0; null(...) = 0; draws are made on the GLOBAL stream (reproducible: "
                "seed(s); a = f(n); seed(s); b = f(n) gives a == b as terms) and advance it (two consecutive draws may differ).",
    bounds=dict(quick="n in {0,1,2,3}; all parameters and the seed symbolic", thorough="n in {0..6}"),
    outside=["that numpy's generators realise the variates' laws (mean 0 / variance 1 of Z etc.): the claim is that the Python side transforms primitive variates correctly"],
    stubs=["numpy -> symnp", "numpy.random (global stream) -> contract stub"],
    assumptions=["z3 sound"],
)


def _variates(key):
    out = []
    for r in np.random.LOG:
        if key in r:
            out.append(r)
    return out


def h_factory(kind):
    def fn(ctx):
        e = ctx.eng
        n = ctx.params['n']
        nz = ctx.mod('sempler.noise')
        cl = []
        seed = e.int('seed')
        e.assume(seed >= 0)
        e.assume(seed < 2 ** 32)
        if kind == 'normal':
            a, b = e.real('mean'), e.real('var')
            e.assume(b >= 0)          # var = 0 is a point mass
            f = nz.normal(a, b)
            key = 'z'
        elif kind == 'uniform':
            a, b = e.real('lo'), e.real('hi')
            e.assume(a < b)
            f = nz.uniform(a, b)
            key = 'u'
        elif kind == 'laplace':
            a, b = e.real('mean'), e.real('scale')
            e.assume(b >= 0)
            f = nz.laplace(a, b)
            key = 'e'
        else:
            a = b = 0
            f = nz.zero()
            key = None
        np.random.seed(seed)
        k0 = len(np.random.LOG)
        x = f(n)
        draws = np.random.LOG[k0:]
        ok = isinstance(x, np.ndarray) and x.shape == (n,)
        cl.append(('the callable returns a one-dimensional array of n values', ok))
        if ok and key is None:
            cl.append(('zero() is identically 0', G.And([G.T(x[i] == 0) for i in range(n)])))
            cl.append(('zero() draws nothing', len(draws) == 0))
            xz = f(n)
            cl.append(('every call returns a fresh array (no storage shared between calls)', not (isinstance(xz, np.ndarray) and xz.buf is x.buf)))
        elif ok:
            cl.append(('exactly one draw call, on numpy\'s global generator', len(draws) == 1 and draws[0]['stream'] == 'global'))
            if len(draws) == 1 and draws[0]['stream'] == 'global':
                vs = draws[0][key]
                cl.append(('n variates are drawn', len(vs) == n))
                if len(vs) == n:
                    idx = [atom_index(v) for v in vs]
                    for i in range(n):
                        dec = linear_coeffs(x[i], idx)
                        if dec is None:
                            cl.append(('entry %d is affine in the variates' % i, False))
                            continue
                        c0, co = dec
                        cl.append(('entry %d depends on the %d-th variate only' % (i, i),
                                   G.And([G.T(co[idx[j]] == 0) for j in range(n) if j != i])))
                        c = co[idx[i]]
                        if kind == 'normal':
                            cl.append(('normal: location is `mean`', c0 == a))
                            cl.append(('normal: scale c >= 0 with c*c = var (variance, not standard deviation)', G.And(G.T(c >= 0), G.T(c * c == b))))
                        elif kind == 'uniform':
                            cl.append(('uniform: lo + (hi - lo) * U  (mean (lo+hi)/2, variance (hi-lo)^2/12)', G.And(G.T(c0 == a), G.T(c == b - a))))
                            cl.append(('uniform: value in [lo, hi)', G.And(G.T(x[i] >= a), G.T(x[i] < b))))
                        else:
                            cl.append(('laplace: mean + scale * E  (mean `mean`, variance 2 scale^2)', G.And(G.T(c0 == a), G.T(c == b))))
            # reproducible after seeding the global generator; advances it otherwise
            x2 = f(n)
            cl.append(('every call returns a fresh array (no storage shared between calls)', not (isinstance(x2, np.ndarray) and x2.buf is x.buf)))
            np.random.seed(seed)
            x3 = f(n)
            if isinstance(x3, np.ndarray) and x3.shape == (n,):
                cl.append(('reproducible after np.random.seed', G.And([G.T(x3[i] == x[i]) for i in range(n)])))
            else:
                cl.append(('reproducible after np.random.seed', False))
            reach = []
            if n > 0 and isinstance(x2, np.ndarray) and x2.shape == (n,):
                reach.append(('consecutive draws can differ', G.Z(G.Or([G.T(x2[i] != x[i]) for i in range(n)]))))
            fn0 = ctx.mod('sempler.functions')
            cl.append(('null(...) contributes exactly 0', fn0.null() == 0 and fn0.null(x) == 0 and fn0.null(x, 1) == 0))
            from harness import rngscript
            return PathResult('returned', cl, inputs=dict(kind=kind, a=a, b=b, n=n, seed=seed, rng=rngscript.script(draws[:1])), call='factory',
                              info=dict(kind=kind, n=n), reach=reach, diff=(_real_first, ['ok', x.tolist()] if ok else None, dict(nice=True, tol=1e-9)))
        fn0 = ctx.mod('sempler.functions')
        cl.append(('null(...) contributes exactly 0', fn0.null() == 0 and fn0.null(1, 2) == 0))
        return PathResult('returned', cl, inputs=dict(kind=kind, a=a, b=b, n=n, seed=seed), call='factory', info=dict(kind=kind, n=n))
    return fn


def _real_first(inp):
    """the first draw of the factory on the real library, with the variates the solver chose"""
    from harness import rngscript
    s = real_sempler()
    a, b = float(unj(inp['a'])), float(unj(inp['b']))
    f = {'normal': s.noise.normal, 'uniform': s.noise.uniform, 'laplace': s.noise.laplace}[inp['kind']](a, b)
    with rngscript.scripted(inp.get('rng')):
        x = f(int(inp['n']))
    return ['ok', x.tolist()]


def obligations(tier):
    ns = [0, 1, 2, 3] if tier == 'quick' else list(range(7))
    ob = []
    for kind in ('normal', 'uniform', 'laplace', 'zero'):
        ob.append(Obligation(kind, h_factory(kind), [dict(n=n) for n in ns], "noise.%s with symbolic parameters and seed" % kind,
                             expect=('returned',), reach_expect=(('consecutive draws can differ',) if kind != 'zero' else ()), weight=1))
    return ob


def replay(rec):
    import numpy
    s = real_sempler()
    inp = rec['inputs']
    kind, n = inp['kind'], inp['n']
    if rec['call'] == 'reach':
        return (True, 'consecutive unseeded draws can never differ (no draw on the global generator?)')
    a, b = float(unj(inp['a'])), float(unj(inp['b']))
    # clauses about the structure of the draw (not about parameter values) are replayed with non-degenerate parameters:
    # with scale / variance 0 every draw equals the location and such a defect would be invisible
    if any(k in rec.get('clause', '') for k in ('draw call', 'variates are drawn', 'depends on the', 'one-dimensional', 'fresh array', 'reproducible', 'affine')):
        if kind == 'uniform':
            a, b = (a, b) if b - a > 1e-6 else (0.25, 1.75)
        elif b <= 0:
            a, b = 0.75, 1.5
    seed = int(unj(inp['seed'])) % (2 ** 32)
    nn = max(n, 4)
    if kind == 'normal':
        f = s.noise.normal(a, b)
        ref = lambda: a + (b ** 0.5) * numpy.random.standard_normal(nn)
    elif kind == 'uniform':
        f = s.noise.uniform(a, b)
        ref = lambda: a + (b - a) * numpy.random.random_sample(nn)
    elif kind == 'laplace':
        f = s.noise.laplace(a, b)
        ref = lambda: a + b * numpy.random.laplace(0.0, 1.0, nn)
    else:
        f = s.noise.zero()
        ref = lambda: numpy.zeros(nn)
    bad = []
    try:
        numpy.random.seed(seed)
        x = f(nn)
        numpy.random.seed(seed)
        r = ref()
        if not isinstance(x, numpy.ndarray) or x.shape != (nn,):
            bad.append('shape %s' % (getattr(x, 'shape', None),))
        elif not numpy.allclose(x, r, rtol=1e-9, atol=1e-12):
            bad.append('draws %s differ from location + scale * standard variates %s' % (x.tolist(), r.tolist()))
        numpy.random.seed(seed)
        x3 = f(nn)
        if not numpy.array_equal(x, x3):
            bad.append('not reproducible after np.random.seed')
        x0 = f(n)
        xa, xb = f(nn), f(nn)
        if numpy.shares_memory(xa, xb):
            bad.append('two calls return arrays that share memory')
        else:
            xa += 1.0
            if kind == 'zero' and (f(nn) != 0).any():
                bad.append('zero() is no longer 0 after a returned array was modified')
        if getattr(x0, 'shape', None) != (n,):
            bad.append('f(%d) has shape %s' % (n, getattr(x0, 'shape', None)))
        if s.functions.null() != 0 or s.functions.null(x, 1) != 0:
            bad.append('null != 0')
    except Exception as ex:
        bad.append('raised %s: %s' % (type(ex).__name__, ex))
    return (len(bad) > 0, 'noise.%s(%s, %s): %s' % (kind, a, b, '; '.join(bad) or 'as documented'))
