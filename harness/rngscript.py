"""Scripted random generators for replay / differential validation.

The symbolic run records every draw of the contract stubs in symnp.random.LOG.
`script(LOG)` turns the log into a structure of symbolic scalars that can be
stored in PathResult.inputs (it is concretised under the path's model); on the
real side `scripted(conc)` patches numpy.random.default_rng / numpy.random.*
so that the REAL library, running on real numpy, receives exactly the outcomes
the solver chose (a uniform variate, a permutation, positions of a choice, ...).
Only the generator is replaced; all other code is the real one."""
import contextlib
from fractions import Fraction

from harness.common import unj


def script(log):
    """LOG -> list of records (still symbolic)"""
    out = []
    for r in log:
        op = r['op']
        d = dict(stream=r['stream'], op=op)
        if op in ('default_rng', 'seed'):
            d['seed'] = r.get('seed')
        elif op == 'uniform':
            d['vals'] = list(r['u'])
        elif op == 'normal':
            d['vals'] = list(r['z'])
        elif op == 'laplace':
            d['vals'] = list(r['e'])
        elif op == 'integers':
            d['vals'] = list(r['v'])
        elif op in ('choice', 'gchoice', 'permutation', 'shuffle'):
            d['vals'] = list(r['pos'])
        elif op == 'multivariate_normal':
            d['vals'] = [list(z) for z in r['z']]
            d['L'] = [list(row) for row in r['L']]
        out.append(d)
    return out


class ScriptError(Exception):
    pass


class _Env:
    def __init__(self, conc):
        self.recs = [r for r in conc]
        self.used = [False] * len(self.recs)
        self.gen_labels = [r['stream'] for r in self.recs if r['op'] == 'default_rng']
        self.ngen = 0
        self.draws = 0

    def next(self, stream, ops):
        for i, r in enumerate(self.recs):
            if self.used[i] or r['stream'] != stream or r['op'] in ('default_rng', 'seed'):
                continue
            if r['op'] not in ops:
                raise ScriptError("stream %s: real code draws %s, symbolic run drew %s" % (stream, ops, r['op']))
            self.used[i] = True
            self.draws += 1
            return r
        raise ScriptError("stream %s: real code makes more draws (%s) than the symbolic run" % (stream, ops))

    def leftover(self):
        return [r for i, r in enumerate(self.recs) if not self.used[i] and r['op'] not in ('default_rng', 'seed')]


def _f(v):
    v = unj(v)
    return float(v) if isinstance(v, Fraction) else v


class ScriptedGenerator:
    def __init__(self, env, stream):
        self._env = env
        self._stream = stream

    def _shape(self, size):
        if size is None:
            return None
        if isinstance(size, (tuple, list)):
            return tuple(int(s) for s in size)
        return (int(size),)

    def _vals(self, ops, size, n_expected=None):
        r = self._env.next(self._stream, ops)
        return r

    def uniform(self, low=0.0, high=1.0, size=None):
        import numpy
        r = self._env.next(self._stream, ('uniform',))
        u = numpy.array([_f(v) for v in r['vals']], dtype=float)
        shape = self._shape(size)
        if shape is None:
            return low + (high - low) * float(u[0])
        return low + (high - low) * u.reshape(shape)

    def random(self, size=None):
        return self.uniform(0.0, 1.0, size)

    def normal(self, loc=0.0, scale=1.0, size=None):
        import numpy
        r = self._env.next(self._stream, ('normal',))
        z = numpy.array([_f(v) for v in r['vals']], dtype=float)
        shape = self._shape(size)
        if shape is None:
            return loc + scale * float(z[0])
        return loc + scale * z.reshape(shape)

    def laplace(self, loc=0.0, scale=1.0, size=None):
        import numpy
        r = self._env.next(self._stream, ('laplace',))
        z = numpy.array([_f(v) for v in r['vals']], dtype=float)
        shape = self._shape(size)
        if shape is None:
            return loc + scale * float(z[0])
        return loc + scale * z.reshape(shape)

    def integers(self, low, high=None, size=None, dtype=None, endpoint=False):
        import numpy
        if high is None:
            low, high = 0, low
        shape = self._shape(size)
        n = 1 if shape is None else int(numpy.prod(shape))
        if not (low < high + (1 if endpoint else 0)):
            if n == 0:
                return numpy.zeros(shape, dtype=int)
            raise ValueError("low >= high")
        r = self._env.next(self._stream, ('integers',))
        v = numpy.array([int(unj(x)) for x in r['vals']], dtype=int)
        if shape is None:
            return int(v[0])
        return v.reshape(shape)

    def choice(self, a, size=None, replace=True, p=None, axis=0, shuffle=True):
        import numpy
        if isinstance(a, (int, numpy.integer)):
            arr = numpy.arange(a)
        else:
            arr = numpy.asarray(a)
        shape = self._shape(size)
        n = 1 if shape is None else int(numpy.prod(shape))
        if len(arr) == 0 and n > 0:
            raise ValueError("a cannot be empty unless no samples are taken")
        if not replace and n > len(arr):
            raise ValueError("Cannot take a larger sample than population when replace is False")
        r = self._env.next(self._stream, ('choice', 'gchoice'))
        pos = [int(unj(x)) for x in r['vals']]
        if len(pos) != n:
            raise ScriptError("choice: %d positions scripted, %d requested" % (len(pos), n))
        if shape is None:
            return arr[pos[0]]
        out = arr[pos] if pos else arr[:0]
        return out.reshape(shape + arr.shape[1:])

    def permutation(self, x, axis=0):
        import numpy
        arr = numpy.arange(x) if isinstance(x, (int, numpy.integer)) else numpy.array(x)
        r = self._env.next(self._stream, ('permutation',))
        pos = [int(unj(v)) for v in r['vals']]
        if len(pos) != len(arr):
            raise ScriptError("permutation: %d positions scripted for %d items" % (len(pos), len(arr)))
        return arr[pos] if pos else arr

    def shuffle(self, x, axis=0):
        import numpy
        r = self._env.next(self._stream, ('shuffle',))
        pos = [int(unj(v)) for v in r['vals']]
        if len(pos) != len(x):
            raise ScriptError("shuffle: %d positions scripted for %d items" % (len(pos), len(x)))
        if isinstance(x, list):
            x[:] = [x[i] for i in pos]
        else:
            x[...] = numpy.array(x)[pos]

    def multivariate_normal(self, mean, cov, size=None, **kw):
        import numpy
        r = self._env.next(self._stream, ('multivariate_normal',))
        L = numpy.array([[_f(v) for v in row] for row in r['L']], dtype=float)
        Z = numpy.array([[_f(v) for v in row] for row in r['vals']], dtype=float)
        mean = numpy.asarray(mean, dtype=float)
        X = mean + Z.reshape(-1, len(mean)) @ L.T
        shape = self._shape(size)
        if shape is None:
            return X[0]
        return X.reshape(shape + (len(mean),))


@contextlib.contextmanager
def scripted(conc):
    """patch numpy.random so that the real library receives the scripted outcomes"""
    import numpy
    env = _Env(conc or [])
    glob = ScriptedGenerator(env, 'global')
    saved = {}

    def default_rng(seed=None):
        if isinstance(seed, ScriptedGenerator):
            return seed
        if env.ngen >= len(env.gen_labels):
            raise ScriptError("real code creates more generators than the symbolic run")
        g = ScriptedGenerator(env, env.gen_labels[env.ngen])
        env.ngen += 1
        return g

    names = dict(default_rng=default_rng, seed=lambda s=None: None, normal=glob.normal, uniform=glob.uniform,
                 laplace=glob.laplace, choice=glob.choice, permutation=glob.permutation,
                 multivariate_normal=glob.multivariate_normal)
    for k, v in names.items():
        saved[k] = getattr(numpy.random, k)
        setattr(numpy.random, k, v)
    try:
        yield env
    finally:
        for k, v in saved.items():
            setattr(numpy.random, k, v)
