"""C17 -- split_data partitions every environment's observations."""
import itertools
from fractions import Fraction
import z3
import symnp as np
from symx.core import SV, SB
from symx.fp import FPV, F64, RNE, model_float
from harness.common import Obligation, PathResult, real_sempler, unj, unj_float
from harness import rngscript
from oracles import graph as G

PID = 'C17'

META = dict(
    explanation="utils.split_data is executed (a) on 1-2 environments of n rows whose entries are distinct symbolic labels held in frozen "
                "caller buffers, with SYMBOLIC real ratios >= 0 of exact sum 1 and a symbolic seed; Generator.shuffle is the contract stub "
                "(any permutation, kept symbolic as if-then-else terms - no forking on the permutation); the engine forks on the fold "
                "sizes. z3 decides per path: every label of an environment occurs among the rows of that environment's folds, the folds "
                "of an environment have n rows in total (hence each observation exactly once, none moved to another environment), fold i "
                "has min(round-half-even(n r_i), rows left) rows and the last fold the remainder, the number of folds / environments is "
                "preserved, rows keep their columns together, results do not alias the input and the input buffers are never written; "
                "(b) BIT-PRECISELY in IEEE binary64 (QF_FP): for ratios k_i / D (k_i symbolic integers with sum D - i.e. decimal / dyadic "
                "fractions that sum to 1 in exact arithmetic) the real acceptance test never raises, and for sum(k_i) != D it always "
                "raises ValueError; (c) real ratios with |sum - 1| > 1e-6 raise ValueError; (d) two calls with the same seed give "
                "term-equal folds, and two different seeds CAN give different folds (sat).",
    bounds=dict(quick="(a) one environment n in 0..8 with 1..3 folds, two environments (n1, n2) in {(0,3),(1,2),(5,4),(3,7)} with 2..3 folds, 1-d and n x 2 samples, ratios as list and as array; (b) 2..4 folds, D in {2,3,4,5,8,10} (k_i <= D); (c) 1..3 folds; (d) n = 4, 2 folds",
                thorough="(a) n in 0..10 (4 folds up to n = 8), more pairs; (b) D in 2..12, 16, 20 with 2..4 folds and D in 2..6 with 5 folds"),
    outside=["ratio denominators other than the listed D in the bit-precise claim", "more than 5 folds", "negative ratios", "floating-point evaluation of n * ratio (decided on exact reals; replays use floats)"],
    stubs=["numpy -> symnp", "numpy.random.default_rng -> contract stub (shuffle = arbitrary permutation)", "IEEE binary64 round-nearest-even (z3 FloatingPoint) for the ratio-sum test"],
    assumptions=["z3 sound (QF_NRA, QF_FP)", "numpy sums fewer than 8 values left to right in binary64"],
)


def _rhe(x):
    """round half to even of an exact real SV, written independently of the engine's __round__"""
    t = x.zterm() if isinstance(x, SV) else z3.RealVal(str(Fraction(x)))
    fl = z3.ToInt(t)
    frac = t - z3.ToReal(fl)
    half = z3.RealVal("1/2")
    return z3.If(frac < half, fl, z3.If(frac > half, fl + 1, z3.If(fl % 2 == 0, fl, fl + 1)))


def h_split(ctx):
    e = ctx.eng
    P = ctx.params
    ns, m, shape, rstyle = P['ns'], P['folds'], P['shape'], P['ratios']
    ut = ctx.mod('sempler.utils')
    ratios = [e.real('r%d' % i) for i in range(m)]
    tot = 0
    for r in ratios:
        e.assume(r >= 0)
        tot = tot + r
    e.assume(tot == 1)
    data, labels = [], []
    allx = []
    for k, n in enumerate(ns):
        xs = [e.real('x%d_%d' % (k, r)) for r in range(n)]
        ys = [e.real('y%d_%d' % (k, r)) for r in range(n)] if shape == '2d' else None
        allx += xs
        if shape == '1d':
            arr = np.ndarray._new(list(xs), (n,), 'float')
        else:
            arr = np.ndarray._new([v for r in range(n) for v in (xs[r], ys[r])], (n, 2), 'float')
        arr.buf.frozen = True
        arr.buf.owner = 'caller (environment %d)' % k
        data.append(arr)
        labels.append((xs, ys))
    for a, b in itertools.combinations(allx, 2):
        e.assume(a != b)
    seed = e.int('seed')
    e.assume(seed >= 0)
    rarg = list(ratios) if rstyle == 'list' else np.ndarray._new(list(ratios), (m,), 'float')
    cl = []
    sym = None
    sizes = None
    try:
        out = ut.split_data(list(data), rarg, random_state=seed)
        outcome = 'returned'
        ok = isinstance(out, list) and len(out) == m and all(isinstance(f, list) and len(f) == len(ns) for f in out)
        cl.append(('one list per fold, each with one entry per environment', ok))
        if ok:
            okarr = all(isinstance(out[i][k], np.ndarray) and out[i][k].ndim == data[k].ndim for i in range(m) for k in range(len(ns)))
            cl.append(('fold entries are arrays of the sample\'s dimension', okarr))
            if okarr:
                sizes = [[out[i][k].shape[0] for i in range(m)] for k in range(len(ns))]
                for k, n in enumerate(ns):
                    xs, ys = labels[k]
                    rowsk = []
                    for i in range(m):
                        f = out[i][k]
                        for t in range(f.shape[0]):
                            rowsk.append((f[t], None) if shape == '1d' else (f[t, 0], f[t, 1]))
                        cl.append(('environment %d fold %d does not alias the input' % (k, i), f.buf is not data[k].buf))
                    cl.append(('environment %d: the folds hold n rows in total (nothing lost or duplicated)' % k, len(rowsk) == n))
                    cl.append(('environment %d: every observation occurs in one of its own folds (rows intact)' % k,
                               G.And([G.Or([G.And(G.T(a == xs[r]), (G.T(b == ys[r]) if ys is not None else True)) for (a, b) in rowsk]) for r in range(n)])))
                    start = 0
                    for i in range(m):
                        rem = n - start
                        if i < m - 1:
                            K = _rhe(n * ratios[i])
                            want = z3.If(K < rem, K, z3.IntVal(rem))
                            cl.append(('environment %d fold %d has min(round(n x ratio), rows left) rows' % (k, i), SB(want == sizes[k][i])))
                        else:
                            cl.append(('environment %d: the last fold takes whatever remains' % k, sizes[k][i] == rem))
                        start += sizes[k][i]
                sym = ['ok', [[out[i][k].tolist() for k in range(len(ns))] for i in range(m)]]
    except np.FrozenWrite as ex:
        outcome = 'wrote to the input'
        cl.append(('the input arrays are left untouched (%s)' % ex, False))
        sym = ['mutated']
    except Exception as ex:
        outcome = 'raised ' + type(ex).__name__
        cl.append(('ratios summing to 1 must be accepted and the split must not raise (%s: %s)' % (type(ex).__name__, str(ex)[:80]), False))
        sym = [type(ex).__name__]
    extra = []
    for r in ratios:
        t = z3.FreshInt('nice')
        extra.append(r.zterm() * 1024 == z3.ToReal(t))
    for x in allx + [y for (_, ys) in labels if ys for y in ys]:
        t = z3.FreshInt('nice')
        extra.append(x.zterm() * 4 == z3.ToReal(t))
        extra.append(z3.And(t >= -400, t <= 400))
    inputs = dict(data=[d.tolist() for d in data], ratios=ratios, rstyle=rstyle, seed=seed, rng=rngscript.script(np.random.LOG))
    return PathResult(outcome, cl, inputs=inputs, call='split', info=dict(ns=ns, folds=m, shape=shape, sizes=sizes),
                      diff=(_real_split, sym, dict(extra=extra, tol=1e-9)))


def _real_args(inp):
    import numpy
    data = [numpy.array(unj_float(d), dtype=float) for d in inp['data']]
    for k, d in enumerate(data):
        if d.ndim == 1 and len(inp['data'][k]) == 0:
            data[k] = numpy.zeros((0,) + ((2,) if inp.get('shape') == '2d' else ()), dtype=float)
    ratios = [float(unj(r)) for r in inp['ratios']]
    if inp.get('rstyle') == 'array':
        ratios = numpy.array(ratios)
    return data, ratios


def _real_split(inp, scripted=True, seed=None):
    import numpy
    s = real_sempler()
    data, ratios = _real_args(inp)
    before = [d.copy() for d in data]
    sd = int(unj(inp['seed'])) if seed is None else seed
    try:
        if scripted:
            with rngscript.scripted(inp.get('rng')):
                out = s.utils.split_data(data, ratios, random_state=sd)
        else:
            out = s.utils.split_data(data, ratios, random_state=sd)
        res = ['ok', [[f.tolist() for f in fold] for fold in out]]
    except rngscript.ScriptError:
        raise
    except Exception as ex:
        res = [type(ex).__name__]
    if any(not numpy.array_equal(a, b) for a, b in zip(data, before)):
        res = ['mutated']
    return res


def _concrete_bad(inp, res):
    data, ratios = _real_args(inp)
    ratios = [float(r) for r in ratios]
    m = len(ratios)
    if res[0] != 'ok':
        return ['%s' % res[0]]
    out = res[1]
    bad = []
    if len(out) != m or any(len(f) != len(data) for f in out):
        return ['%d folds with %s entries instead of %d folds x %d environments' % (len(out), [len(f) for f in out], m, len(data))]
    for k, d in enumerate(data):
        n = len(d)
        rows = [tuple(r) if isinstance(r, list) else (r,) for i in range(m) for r in out[i][k]]
        orig = [tuple(r) if isinstance(r, list) else (r,) for r in d.tolist()]
        if sorted(rows) != sorted(orig):
            bad.append('environment %d: folds hold %d rows %s, the input has %d rows' % (k, len(rows), 'that are not a rearrangement of the input' if len(rows) == n else '', n))
        start = 0
        for i in range(m - 1):
            want = min(round(n * ratios[i]), n - start)
            if len(out[i][k]) != want:
                bad.append('environment %d fold %d has %d rows, round(%d x %s) = %d with %d left' % (k, i, len(out[i][k]), n, ratios[i], round(n * ratios[i]), n - start))
            start += len(out[i][k])
    return bad


def replay(rec):
    if rec['call'] == 'reach':
        return _replay_reach(rec)
    inp = rec['inputs']
    if rec['call'] in ('accept_fp', 'reject_fp', 'reject_real'):
        return _replay_ratio(rec)
    if rec['call'] == 'seeds':
        a, b = _real_split(inp, scripted=False), _real_split(inp, scripted=False)
        return (a != b, 'two calls with random_state=%s %s' % (inp['seed'], 'differ' if a != b else 'agree'))
    try:
        res = _real_split(inp)
    except rngscript.ScriptError as ex:
        return (False, 'scripted replay impossible: %s' % ex)
    bad = _concrete_bad(inp, res)
    natural = None
    if bad:
        for sd in range(50):
            try:
                if _concrete_bad(inp, _real_split(inp, scripted=False, seed=sd)):
                    natural = sd
                    break
            except Exception:
                break
    data, ratios = _real_args(inp)
    return (len(bad) > 0, 'split_data(%s, ratios=%s) with the shuffle chosen by the solver -> %s: %s%s' % (
        [d.tolist() for d in data], [float(r) for r in ratios], str(res)[:300], '; '.join(bad[:3]) or 'a correct split',
        (' [also with the real generator at random_state=%d]' % natural) if natural is not None else ''))


# ---- (b), (c): the ratio-sum test ---------------------------------------------------------

def _mk_ratio(kind):
    def fn(ctx):
        e = ctx.eng
        P = ctx.params
        m = P['folds']
        ut = ctx.mod('sempler.utils')
        cl = []
        if kind == 'reject_real':
            ratios = [e.real('r%d' % i) for i in range(m)]
            tot = 0
            for r in ratios:
                e.assume(r >= 0)
                e.assume(r <= 2)
                tot = tot + r
            e.assume(G.Z(G.Or(G.T(tot - 1 > Fraction(1, 10 ** 6)), G.T(1 - tot > Fraction(1, 10 ** 6)))))
            arg = list(ratios)
            rec_in = dict(kind=kind, ratios=ratios)
            expect_raise = True
        else:
            D = P['D']
            ks = [z3.BitVec('k%d' % i, 16) for i in range(m)]
            s = z3.BitVecVal(0, 16)
            for kv in ks:
                e.assume(SB(z3.ULE(kv, z3.BitVecVal(D, 16))))
                s = s + kv
            if kind == 'accept_fp':
                e.assume(SB(s == z3.BitVecVal(D, 16)))
            else:
                e.assume(SB(s != z3.BitVecVal(D, 16)))
            # k / D as a static table of correctly rounded binary64 quotients (Python's float division is IEEE RNE)
            def quot(kv):
                t = z3.FPVal(float(D) / D, F64)
                for j in range(D - 1, -1, -1):
                    t = z3.If(kv == z3.BitVecVal(j, 16), z3.FPVal(j / D, F64), t)
                return t
            arg = [FPV(quot(kv)) for kv in ks]
            rec_in = dict(kind=kind, D=D, k=[e.atom(z3.BV2Int(kv)) for kv in ks])
            expect_raise = (kind == 'reject_fp')
        try:
            out = ut.split_data([], arg, random_state=0)
            outcome = 'returned'
            if expect_raise:
                cl.append(('ratio vectors whose sum differs from 1 raise ValueError', False))
            else:
                cl.append(('ratios that sum to 1 in exact arithmetic are accepted (one fold list per ratio)', isinstance(out, list) and len(out) == m))
        except ValueError:
            outcome = 'raised ValueError'
            if not expect_raise:
                cl.append(('ratios that sum to 1 in exact arithmetic are accepted, whatever their floating-point sum', False))
            else:
                cl.append(('ValueError', True))
        except Exception as ex:
            outcome = 'raised ' + type(ex).__name__
            cl.append(('only ValueError may be raised (%s: %s)' % (type(ex).__name__, str(ex)[:80]), False))
        return PathResult(outcome, cl, inputs=rec_in, call=kind, info=dict(kind=kind, folds=m, D=P.get('D')))
    return fn


def _replay_ratio(rec):
    s = real_sempler()
    inp = rec['inputs']
    if inp['kind'] == 'reject_real':
        ratios = [float(unj(r)) for r in inp['ratios']]
        expect_raise = True
    else:
        D = int(inp['D'])
        ratios = [int(unj(k)) / D for k in inp['k']]
        expect_raise = inp['kind'] == 'reject_fp'
    try:
        s.utils.split_data([], ratios)
        raised = False
    except ValueError:
        raised = True
    except Exception as ex:
        return (True, 'split_data([], %s) raised %s' % (ratios, type(ex).__name__))
    return (raised != expect_raise, 'split_data([], ratios=%s) (float sum %r) %s' % (ratios, sum(ratios), 'raised ValueError' if raised else 'was accepted'))


# ---- (d) determinism and dependence on random_state -----------------------------------------

def h_seeds(ctx):
    e = ctx.eng
    ut = ctx.mod('sempler.utils')
    n = ctx.params['n']
    xs = [e.real('x%d' % r) for r in range(n)]
    for a, b in itertools.combinations(xs, 2):
        e.assume(a != b)
    s1, s2 = e.int('seed'), e.int('seed2')
    e.assume(s1 >= 0)
    e.assume(s2 >= 0)
    e.assume(s1 != s2)
    ratios = [Fraction(1, 2), Fraction(1, 2)]

    def call(sd):
        arr = np.ndarray._new(list(xs), (n,), 'float')
        out = ut.split_data([arr], list(ratios), random_state=sd)
        return [out[i][0][t] for i in range(len(out)) for t in range(out[i][0].shape[0])]
    a = call(s1)
    np.random.set_global_state('Gother')
    b = call(s1)
    c = call(s2)
    cl = [('two calls with the same random_state return the same folds', G.And([G.T(x == y) for x, y in zip(a, b)]) if len(a) == len(b) else False)]
    reach = [('a different random_state can give a different split', G.Z(G.Or([G.T(x != y) for x, y in zip(a, c)])))]
    return PathResult('returned', cl, inputs=dict(data=[xs], ratios=ratios, rstyle='list', seed=s1), call='seeds', info=dict(n=n), reach=reach)


def _replay_reach(rec):
    import numpy
    s = real_sempler()
    d = [numpy.arange(8.0)]
    outs = set()
    for sd in range(40):
        o = s.utils.split_data(d, [0.5, 0.5], random_state=sd)
        outs.add(tuple(o[0][0].tolist()))
    return (len(outs) == 1, 'split_data over 40 different random_state values gave %d different first folds' % len(outs))


def obligations(tier):
    ob = []
    quick = tier == 'quick'
    nmax = 8 if quick else 10
    fmax = 3 if quick else 4
    for m in range(1, fmax + 1):
        cubes = []
        for n in range(0, nmax + 1):
            for shape, rs in (('1d', 'list'), ('2d', 'array')):
                if n > 8 and (shape == '2d' or m > 3):
                    continue
                cubes.append(dict(ns=[n], folds=m, shape=shape, ratios=rs))
        ob.append(Obligation('split_E1_f%d' % m, h_split, cubes, "one environment of n = 0..%d rows, %d fold(s), symbolic ratios / labels / seed / shuffle" % (nmax, m),
                             expect=('returned',), weight=10 * m))
    pairs = [(0, 3), (1, 2), (5, 4), (3, 7)] + ([] if quick else [(2, 0), (6, 6), (9, 1)])
    for m in range(2, fmax + 1):
        cubes = [dict(ns=list(pr), folds=m, shape=sh, ratios='list') for pr in pairs for sh in ('1d', '2d')]
        ob.append(Obligation('split_E2_f%d' % m, h_split, cubes, "two environments of different sizes, %d folds" % m, expect=('returned',), weight=30 * m))
    Ds = [2, 3, 4, 5, 8, 10] if quick else list(range(2, 13)) + [16, 20]
    for m in range(2, (4 if quick else 5) + 1):
        if m == 5:
            Ds = [2, 3, 4, 5, 6]
        ob.append(Obligation('accept_fp_f%d' % m, _mk_ratio('accept_fp'), [dict(folds=m, D=D) for D in Ds],
                             "bit-precise (binary64): ratios k_i / D with sum(k_i) = D are accepted", expect=('returned',), weight=20 * m, timeout_ms=300000))
        ob.append(Obligation('reject_fp_f%d' % m, _mk_ratio('reject_fp'), [dict(folds=m, D=D) for D in Ds],
                             "bit-precise (binary64): ratios k_i / D with sum(k_i) != D raise ValueError", expect=('raised ValueError',), weight=20 * m, timeout_ms=300000))
    for m in (1, 2, 3):
        ob.append(Obligation('reject_real_f%d' % m, _mk_ratio('reject_real'), [dict(folds=m)], "real ratios with |sum - 1| > 1e-6 raise ValueError",
                             expect=('raised ValueError',), weight=1))
    ob.append(Obligation('seeds', h_seeds, [dict(n=4)], "same seed => same folds from any global RNG state; different seeds can differ",
                         expect=('returned',), reach_expect=('a different random_state can give a different split',), weight=5))
    return ob
