"""C01 -- LGANM population law equals the intervened structural equations."""
from fractions import Fraction
import symnp as np
from symx.core import SV, linear_coeffs
from harness.common import Obligation, PathResult, real_sempler, unj, unj_float
from harness import C05
from harness import scm_inputs as SI
from harness import inputs as I
from oracles import graph as G
from oracles import scm

PID = 'C01'

META = dict(
    explanation="LGANM.__init__, LGANM.sample(population=True) and _parse_interventions are executed on every DAG pattern with symbolic "
                "real weights (any sign), symbolic noise means and non-negative variances, and a symbolic assignment of "
                "{none, do, noise, shift and their overlaps} to the variables with symbolic tuple (m, v) or scalar parameters "
                "(numpy.linalg.inv = exact contract stub). The returned mean / covariance must satisfy the intervened structural "
                "equations written from the statement: (I - W'^T) mean = mu' and (I - W'^T) cov (I - W') = diag(D') with do > noise > "
                "shift precedence and scalar = point mass; polynomial identities decided for all weights/parameters at once. The same "
                "is done with integer-typed W / means / variances arrays (symbolic Ints) and real-valued intervention parameters, and "
                "with interventions passed as dict (keys inserted in ascending and in descending order), {} or None. (low, high) ranges: every sampled mean / variance is low + (high-low)*U "
                "with its own uniform variate, hence inside the range.",
    bounds=dict(quick="p <= 2 all intervention assignments (11 per variable: none, do/noise/shift with tuple or scalar parameter, the 4 overlaps); p = 3 with at most 2 intervened variables; integer-typed models p <= 2 all, p = 3 at most 1 intervened variable; ranges p <= 3",
                thorough="p = 3: float all single-kind assignments, int at most 2 intervened variables; p = 4 with at most 1 intervened variable (single kinds)"),
    outside=["floating-point rounding in inv / matmul", "numpy scalar types (np.float64) as scalar parameters", "p > 4"],
    stubs=["numpy -> symnp", "numpy.linalg.inv -> exact adjugate/determinant contract stub", "numpy.random.default_rng -> contract stub (uniform = low + (high-low)*U, 0 <= U < 1)"],
    assumptions=["z3 sound"],
)

KINDS11 = ['none', 'do', 'noise', 'shift', 'do+noise', 'do+shift', 'noise+shift', 'do+noise+shift']


def _visibly(a, b):
    """the two sides differ by at least 1/4 (a counterexample that survives floating-point replay)"""
    d = a - b
    if not isinstance(d, SV):
        return None
    return G.Z(G.Or(G.T(d >= Fraction(1, 4)), G.T(d <= Fraction(-1, 4))))


def h_law(dtype, how='dict'):
    def fn(ctx):
        p = ctx.params['p']
        e = ctx.eng
        lg = ctx.mod('sempler.lganm')
        rows, pat, means, variances = SI.sym_model(ctx, dtype)
        do, noise, shift, descr = SI.sym_interventions(ctx, p, kinds_allowed=(KINDS11[:4] if ctx.params.get('kinds_simple') else KINDS11), scalar_params=True,
                                                       max_targets=ctx.params.get('max_targets'))
        # scalar parameters only on single-kind targets (keeps the number of paths manageable)
        for d in descr:
            if '+' in d['kind'] and any(d.get(part) == 'scalar' for part in ('do', 'noise', 'shift')):
                from symx.core import PathInfeasible
                raise PathInfeasible()
        Wp, mu_, D_ = scm.intervened(rows, means, variances, do, noise, shift)
        adt = 'float' if dtype == 'float' else 'int'
        Warr = np.array(rows, dtype=adt)
        marr = np.array(means, dtype=adt)
        varr = np.array(variances, dtype=adt)
        for a in (Warr, marr, varr):
            a.buf.frozen = True
        cl = []
        sym = None

        def arg(dic):
            if dic:
                return dic
            return {} if how != 'none' else None
        try:
            model = lg.LGANM(Warr, marr, varr)
            dist = model.sample(population=True, do_interventions=arg(do), noise_interventions=arg(noise), shift_interventions=arg(shift))
            ok = dist.mean.shape == (p,) and dist.covariance.shape == (p, p)
            cl.append(('population distribution has p variables', ok))
            if ok:
                mean = [dist.mean[i] for i in range(p)]
                cov = [[dist.covariance[i, j] for j in range(p)] for i in range(p)]
                scm.structural_clauses(Wp, mu_, D_, mean, cov, lambda n, a, b: cl.append((n, a == b, _visibly(a, b))))
                sym = ['ok', dist.mean.tolist(), dist.covariance.tolist()]
            # the model itself is unchanged
            cl.append(('model attributes unchanged by sampling', G.And([G.T(model.W[i, j] == rows[i][j]) for i in range(p) for j in range(p)] +
                                                                       [G.T(model.means[i] == means[i]) for i in range(p)] +
                                                                       [G.T(model.variances[i] == variances[i]) for i in range(p)])))
            outcome = 'returned'
        except Exception as ex:
            outcome = 'raised ' + type(ex).__name__
            cl.append(('sampling the population law must not raise (%s: %s)' % (type(ex).__name__, str(ex)[:80]), False))
            sym = [type(ex).__name__]
        return PathResult(outcome, cl, inputs=dict(W=rows, means=means, variances=variances, do=do, noise=noise, shift=shift,
                                                   dtype=dtype, how=how),
                          call='law', info=dict(pattern=[list(r) for r in pat], interventions=descr, dtype=dtype),
                          diff=(_real_law, sym, dict(nice=True, tol=1e-6)))
    return fn


def _np_model(inp):
    import numpy
    s = real_sempler()
    if inp.get('dtype') == 'int':
        conv = lambda v: [conv(y) for y in v] if isinstance(v, list) else int(unj(v))
        W = numpy.array(conv(inp['W']), dtype=int)
        means = numpy.array(conv(inp['means']), dtype=int)
        variances = numpy.array(conv(inp['variances']), dtype=int)
    else:
        W = numpy.array(unj_float(inp['W']), dtype=float)
        means = numpy.array(unj_float(inp['means']), dtype=float)
        variances = numpy.array(unj_float(inp['variances']), dtype=float)
    return s, W, means, variances


def _real_law(inp):
    s, W, means, variances = _np_model(inp)
    do, noise, shift = SI.conc_interventions([inp['do'], inp['noise'], inp['shift']])
    none = inp.get('how') == 'none'
    arg = lambda d: d if d else ({} if not none else None)
    try:
        dist = s.LGANM(W, means, variances).sample(population=True, do_interventions=arg(do), noise_interventions=arg(noise),
                                                   shift_interventions=arg(shift))
        return ['ok', dist.mean.tolist(), dist.covariance.tolist()]
    except Exception as ex:
        return [type(ex).__name__]


def h_ranges(ctx):
    p = ctx.params['p']
    e = ctx.eng
    lg = ctx.mod('sempler.lganm')
    rows, pat = I.weighted_dag(ctx)
    lo1, hi1, lo2, hi2 = e.real('mlo'), e.real('mhi'), e.real('vlo'), e.real('vhi')
    e.assume(lo1 < hi1)
    e.assume(lo2 < hi2)
    e.assume(lo2 >= 0)
    seed = e.int('seed')
    e.assume(seed >= 0)
    cl = []
    try:
        model = lg.LGANM(np.array(rows, dtype=float), (lo1, hi1), (lo2, hi2), random_state=seed)
        ok = model.means.shape == (p,) and model.variances.shape == (p,)
        cl.append(('one mean and one variance per variable', ok))
        if ok:
            log = [r for r in np.random.LOG if r['op'] == 'uniform']
            uatoms = []
            for r in log:
                uatoms.extend(r['u'])
            from symx.core import atom_index
            uidx = [atom_index(u) for u in uatoms]
            used = []
            for nm, arr, lo, hi in (('mean', model.means, lo1, hi1), ('variance', model.variances, lo2, hi2)):
                for i in range(p):
                    v = arr[i]
                    cl.append(('%s[%d] lies in the requested range' % (nm, i), G.And(G.T(v >= lo), G.T(v <= hi))))
                    dec = linear_coeffs(v, uidx)
                    if dec is None:
                        cl.append(('%s[%d] is low + (high - low) * U' % (nm, i), False))
                        continue
                    c0, co = dec
                    nzs = [k for k in uidx if not (isinstance(co[k], (int, float)) and co[k] == 0)]
                    cl.append(('%s[%d] uses exactly one uniform variate' % (nm, i), len(nzs) == 1))
                    if len(nzs) == 1:
                        cl.append(('%s[%d] = low + (high - low) * U' % (nm, i), G.And(G.T(c0 == lo), G.T(co[nzs[0]] == hi - lo))))
                        used.append(nzs[0])
            cl.append(('every variable has its own variate (one draw per variable)', len(set(used)) == len(used)))
        outcome = 'returned'
    except Exception as ex:
        outcome = 'raised ' + type(ex).__name__
        cl.append(('LGANM with (low, high) ranges must not raise (%s: %s)' % (type(ex).__name__, ex), False))
    return PathResult(outcome, cl, inputs=dict(W=rows, mlo=lo1, mhi=hi1, vlo=lo2, vhi=hi2, seed=seed), call='ranges',
                      info=dict(pattern=[list(r) for r in pat]))


def obligations(tier):
    ob = []
    for p in (1, 2):
        ob.append(Obligation('law_float_p%d' % p, h_law('float'), I.dag_pair_cubes(p, 0), "population law, float model, %d variables, all intervention assignments" % p,
                             expect=('returned',), weight=p * 5))
        ob.append(Obligation('law_int_p%d' % p, h_law('int'), I.dag_pair_cubes(p, 0), "population law, integer-typed model arrays, %d variables" % p,
                             expect=('returned',), weight=p * 5))
    ob.append(Obligation('law_float_desc_p2', h_law('float'), [dict(c, dict_order='desc') for c in I.dag_pair_cubes(2, 0)],
                         "population law, 2 variables, intervention dicts built in descending key order", expect=('returned',), weight=8))
    ob.append(Obligation('law_float_desc_p3', h_law('float'), [dict(c, dict_order='desc', max_targets=2, kinds_simple=True) for c in I.dag_pair_cubes(3, 3)],
                         "population law, 3 variables, at most 2 intervened (single kinds), dicts built in descending key order", expect=('returned',), weight=30, timeout_ms=120000))
    ob.append(Obligation('law_float_none_p2', h_law('float', 'none'), I.dag_pair_cubes(2, 0), "interventions passed as None / {} , 2 variables",
                         expect=('returned',), weight=5))
    full3 = tier == 'thorough'
    ob.append(Obligation('law_float_p3', h_law('float'), [dict(c, max_targets=2) for c in I.dag_pair_cubes(3, 3)],
                         "population law, float model, 3 variables, at most 2 intervened variables",
                         expect=('returned',), weight=50, timeout_ms=120000))
    ob.append(Obligation('law_int_p3', h_law('int'), [dict(c, max_targets=2 if full3 else 1) for c in I.dag_pair_cubes(3, 3)],
                         "population law, integer-typed model, 3 variables, at most %d intervened variable(s)" % (2 if full3 else 1),
                         expect=('returned',), weight=40, timeout_ms=120000))
    if full3:
        ob.append(Obligation('law_float_p3_all', h_law('float'), [dict(c, kinds_simple=True) for c in I.dag_pair_cubes(3, 3)],
                             "population law, float model, 3 variables, every variable none / do / noise / shift (no overlaps)",
                             expect=('returned',), weight=60, timeout_ms=120000))
    for p in (1, 2, 3):
        ob.append(Obligation('ranges_p%d' % p, h_ranges, I.dag_pair_cubes(p, 0), "(low, high) ranges for means and variances, %d variables" % p,
                             expect=('returned',), weight=p))
    if tier == 'thorough':
        ob.append(Obligation('law_float_p4', h_law('float'), [dict(c, max_targets=1, kinds_simple=True) for c in I.dag_pair_cubes(4, 5)],
                             "population law, float model, 4 variables, at most 1 intervened variable (single kinds)", expect=('returned',), weight=200, timeout_ms=180000))
    return ob


# ---- replay with exact rational arithmetic ------------------------------------

def exact_law(W, means, variances, do, noise, shift):
    p = len(W)
    Wp, mu_, D_ = scm.intervened(W, means, variances, do, noise, shift)
    # A = (I - W'^T)^-1
    M = [[(Fraction(1) if i == k else Fraction(0)) - Fraction(Wp[k][i]) for k in range(p)] for i in range(p)]
    Id = [[Fraction(1) if i == j else Fraction(0) for j in range(p)] for i in range(p)]
    A = C05._solve_frac(M, Id)
    mean = [sum(A[i][k] * Fraction(mu_[k]) for k in range(p)) for i in range(p)]
    cov = [[sum(A[i][k] * Fraction(D_[k]) * A[j][k] for k in range(p)) for j in range(p)] for i in range(p)]
    return mean, cov


def replay(rec):
    inp = rec['inputs']
    if rec['call'] == 'law':
        fr = lambda v: [fr(y) for y in v] if isinstance(v, list) else Fraction(unj(v))
        W, means, variances = fr(inp['W']), fr(inp['means']), fr(inp['variances'])
        dicts = []
        for dic in (inp['do'], inp['noise'], inp['shift']):
            d = {}
            for k, v in dic.items():
                d[int(k)] = (Fraction(unj(v[0])), Fraction(unj(v[1]))) if isinstance(v, list) else Fraction(unj(v))
            dicts.append(d)
        mean, cov = exact_law(W, means, variances, *dicts)
        r = _real_law(inp)
        if r[0] != 'ok':
            return (True, 'LGANM(...).sample(population=True, do=%s, noise=%s, shift=%s) on W=%s means=%s variances=%s (dtype %s) raised %s'
                    % (inp['do'], inp['noise'], inp['shift'], inp['W'], inp['means'], inp['variances'], inp.get('dtype'), r[0]))
        p = len(W)
        bad = any(not C05._close(r[1][i], mean[i], 1e-7) for i in range(p)) or \
            any(not C05._close(r[2][i][j], cov[i][j], 1e-7) for i in range(p) for j in range(p))
        return (bad, 'W=%s means=%s variances=%s (dtype %s) do=%s noise=%s shift=%s: returned mean %s cov %s; structural equations give mean %s cov %s'
                % (inp['W'], inp['means'], inp['variances'], inp.get('dtype'), inp['do'], inp['noise'], inp['shift'], r[1], r[2],
                   [float(v) for v in mean], [[float(v) for v in rr] for rr in cov]))
    if rec['call'] == 'ranges':
        import numpy
        s = real_sempler()
        W = numpy.array(unj_float(inp['W']), dtype=float)
        lo1, hi1, lo2, hi2 = [float(unj(inp[k])) for k in ('mlo', 'mhi', 'vlo', 'vhi')]
        seed = int(unj(inp['seed']))
        try:
            m = s.LGANM(W, (lo1, hi1), (lo2, hi2), random_state=seed)
        except Exception as ex:
            return (True, 'LGANM(W, (%s,%s), (%s,%s), random_state=%d) raised %s' % (lo1, hi1, lo2, hi2, seed, type(ex).__name__))
        p = len(W)
        bad = m.means.shape != (p,) or m.variances.shape != (p,) or any(not (lo1 <= v <= hi1) for v in m.means) or any(not (lo2 <= v <= hi2) for v in m.variances)
        if not bad and p > 1:
            bad = len(set(m.means.tolist())) < p or len(set(m.variances.tolist())) < p
        return (bad, 'means %s in [%s,%s], variances %s in [%s,%s]' % (m.means.tolist(), lo1, hi1, m.variances.tolist(), lo2, hi2))
    return (False, 'unknown call')
