"""Harness framework: obligations, parallel exploration, replay, evidence."""
import contextlib
import hashlib
import io
import json
import multiprocessing
import os
import sys
import time
import traceback
from fractions import Fraction

import z3

import symnp
from symx import core
from symx.core import Engine, SV, SB, Inconclusive, PathInfeasible, EngineError, model_value
from symx.loader import Twin

VERIF = os.path.dirname(os.path.dirname(os.path.abspath(__file__)))
NPROC = int(os.environ.get('VERIF_NPROC', '16'))

_TWIN = [None]


def get_twin():
    if _TWIN[0] is None:
        patches = []
        mf = os.environ.get('VERIF_MUTANT')
        if mf:
            with open(mf) as f:
                patches = [tuple(x) for x in json.load(f)['patches']]
        extra = {}
        try:
            from stubs import sympandas, fake_rpy2
            extra.update(sympandas.modules())
            extra.update(fake_rpy2.modules())
        except ImportError:
            pass
        tw = Twin(patches=patches, extra_modules=extra)
        # load everything now (before forking), so workers share it
        for m in ('sempler.utils', 'sempler.functions', 'sempler.noise', 'sempler.normal_distribution',
                  'sempler.lganm', 'sempler.anm', 'sempler.generators'):
            tw.load(m)
        if extra:
            try:
                tw.load('sempler.semi')
            except Exception as e:   # pragma: no cover
                tw.semi_error = e
        if patches and tw.applied_patches != len(patches):
            raise Inconclusive("mutant patch not applied (%d of %d)" % (tw.applied_patches, len(patches)))
        _TWIN[0] = tw
    return _TWIN[0]


_REAL = [None]


def real_sempler():
    """the real library (real numpy), for replay / differential validation"""
    if _REAL[0] is None:
        buf = io.StringIO()
        with contextlib.redirect_stdout(buf):
            import sempler
            import sempler.utils
            import sempler.generators
            import sempler.noise
            import sempler.functions
        _REAL[0] = sempler
    return _REAL[0]


# ---------------------------------------------------------------------------
# data conversion

def jnum(v):
    """exact JSON encoding of a number"""
    if isinstance(v, bool):
        return v
    if isinstance(v, int):
        return v
    if isinstance(v, Fraction):
        if v.denominator == 1:
            return int(v)
        return "%d/%d" % (v.numerator, v.denominator)
    if isinstance(v, float):
        return jnum(Fraction(v)) if v == v and v not in (float('inf'), float('-inf')) else repr(v)
    return v


def unj(v):
    if isinstance(v, str) and '/' in v:
        a, b = v.split('/')
        return Fraction(int(a), int(b))
    return v


def unj_float(x):
    """JSON structure -> python floats/ints (nested lists)"""
    if isinstance(x, list):
        return [unj_float(y) for y in x]
    if isinstance(x, dict):
        return {k: unj_float(y) for k, y in x.items()}
    v = unj(x)
    if isinstance(v, Fraction):
        return float(v)
    return v


def concretise(model, x):
    """evaluate a structure of symbolic scalars under a model -> JSON-able"""
    if isinstance(x, symnp.ndarray):
        return concretise(model, x.tolist())
    if isinstance(x, (list, tuple)):
        return [concretise(model, y) for y in x]
    if isinstance(x, dict):
        return {str(k): concretise(model, y) for k, y in x.items()}
    if isinstance(x, (set, frozenset)):
        return sorted(concretise(model, y) for y in x)
    if isinstance(x, (SV, SB)):
        return jnum(model_value(model, x))
    if isinstance(x, (int, float, Fraction, bool)):
        return jnum(x)
    if x is None or isinstance(x, str):
        return x
    return repr(x)


def mval(model, x):
    """evaluate a structure under a model -> python numbers (Fractions)"""
    if isinstance(x, symnp.ndarray):
        return mval(model, x.tolist())
    if isinstance(x, (list, tuple)):
        return [mval(model, y) for y in x]
    if isinstance(x, (SV, SB)):
        return model_value(model, x)
    return x


# ---------------------------------------------------------------------------

def visibly(a, b, margin=Fraction(1, 4)):
    """formula: the two sides differ by at least `margin` (used as the optional third element of a clause:
    counterexamples that survive floating-point replay are searched first)"""
    try:
        d = a - b
    except Exception:
        return None
    if not isinstance(d, SV):
        return None
    from oracles import graph as G
    return G.Z(G.Or(G.T(d >= margin), G.T(d <= -margin)))


class PathResult:
    def __init__(self, outcome, clauses, inputs=None, call=None, info=None, diff=None, reach=None):
        self.outcome = outcome      # e.g. 'returned', 'raised ValueError'
        self.clauses = clauses      # list of (name, formula)
        self.inputs = inputs or {}  # name -> structure of (symbolic) scalars
        self.call = call            # replay key understood by the harness's replay()
        self.info = info            # JSON-able description of the path (for samples)
        self.diff = diff            # (real_fn(concrete_inputs) -> value, symbolic_value) for differential validation
        self.reach = reach or []    # list of (name, formula): must be satisfiable on SOME path (reachability clauses)


class Obligation:
    def __init__(self, name, fn, cubes, descr, expect=(), reach_expect=(), replay=None, timeout_ms=60000, weight=1):
        self.name = name
        self.fn = fn                    # fn(ctx) -> PathResult
        self.cubes = list(cubes)        # list of JSON-able params dicts
        self.descr = descr
        self.expect = tuple(expect)     # outcome classes that must be reached at least once (vacuity guard)
        self.reach_expect = tuple(reach_expect)  # reachability clause names that must be sat at least once
        self.timeout_ms = timeout_ms
        self.weight = weight


class Ctx:
    def __init__(self, eng, tw, params):
        self.eng = eng
        self.tw = tw
        self.params = params

    def mod(self, name):
        return self.tw.load(name)


def _nice_model(eng, phi_neg, inputs):
    """try to get a counterexample whose real inputs are small integers / dyadics
    (replays better in floating point); falls back to any model"""
    atoms = []

    def collect(x):
        if isinstance(x, symnp.ndarray):
            collect(x.tolist())
        elif isinstance(x, (list, tuple)):
            for y in x:
                collect(y)
        elif isinstance(x, dict):
            for y in x.values():
                collect(y)
        elif isinstance(x, SV) and x.q is None and len(x.p.d) == 1:
            (m, c), = x.p.d.items()
            if len(m) == 1 and m[0][1] == 1 and c == 1:
                t = core.ATOMS.terms[m[0][0]]
                if z3.is_real(t) and z3.is_const(t):
                    atoms.append(t)
    collect(inputs)
    if not atoms:
        return None
    s = eng.solver
    for scale in (1, 2, 4, 1000, 10 ** 6):
        s.push()
        try:
            for t in atoms:
                k = z3.FreshInt('nice')
                s.add(t * scale == z3.ToReal(k), k >= -8 * scale, k <= 8 * scale)
            s.add(phi_neg)
            old = eng.timeout_ms
            s.set('timeout', 5000)
            r = s.check()
            s.set('timeout', old)
            if r == z3.sat:
                return s.model()
        finally:
            s.pop()
    return None


def _clear_module_caches(tw):
    """a path starts like a fresh process: memoising decorators (functools.lru_cache / cache) on repo functions are
    cleared, so that state carried from one explored path into the next cannot make re-execution non-deterministic
    (state carried from one CALL to the next inside a path is exactly what the history obligations look for)"""
    import types as _types
    for m in list(tw.modules.values()):
        for v in list(vars(m).values()):
            if isinstance(v, _types.ModuleType):
                continue
            cc = getattr(v, 'cache_clear', None)
            if callable(cc):
                try:
                    cc()
                except Exception:
                    pass


def _brief(x, limit):
    """JSON-able structure, cut to a bounded size (evidence files must stay small)"""
    try:
        t = json.dumps(x, default=str)
    except Exception:
        t = repr(x)
    if len(t) <= limit:
        return x
    return dict(truncated=True, size=len(t), head=t[:limit])


def _has_real_atoms(x):
    if isinstance(x, symnp.ndarray):
        return _has_real_atoms(x.tolist())
    if isinstance(x, (list, tuple)):
        return any(_has_real_atoms(y) for y in x)
    if isinstance(x, dict):
        return any(_has_real_atoms(y) for y in x.values())
    return isinstance(x, SV) and not x.isint


def _extra_model(eng, extra):
    s = eng.solver
    s.push()
    try:
        for c in extra:
            s.add(c.t if isinstance(c, SB) else c)
        s.set('timeout', 5000)
        r = s.check()
        s.set('timeout', eng.timeout_ms)
        if r == z3.sat:
            return s.model()
    finally:
        s.pop()
    return None


def run_task(task):
    """worker: explore one (obligation, cube)"""
    modname, oblname, cube_idx, opts = task
    t0 = time.time()
    out = dict(obl=oblname, cube=cube_idx, paths=0, outcomes={}, violations=[], samples=[], error=None,
               validated=0, val_mismatch=[], reach_sat={}, vacuity_witness=0, stats={}, executed=[])
    try:
        mod = sys.modules[modname]
        obl = [o for o in mod.obligations(opts['tier']) if o.name == oblname][0]
        params = obl.cubes[cube_idx]
        tw = get_twin()
        eng = Engine(timeout_ms=obl.timeout_ms)
        ctx = Ctx(eng, tw, params)
        nsample = opts.get('nsample', 2)
        do_diff = opts.get('diff', True)

        def run():
            symnp.random.reset()
            _clear_module_caches(tw)
            return obl.fn(ctx)

        def end(res):
            out['paths'] += 1
            out['outcomes'][res.outcome] = out['outcomes'].get(res.outcome, 0) + 1
            if out['vacuity_witness'] == 0:
                # reachability twin: `assert False` here must be violated
                try:
                    w = eng.prove(False)
                except Inconclusive:
                    # stub hypotheses (lazy lemmas) too hard to satisfy constructively: witness the path condition alone
                    lem, eng.lemmas = eng.lemmas, []
                    try:
                        w = eng.prove(False)
                    finally:
                        eng.lemmas = lem
                    out['vacuity_without_lemmas'] = out.get('vacuity_without_lemmas', 0) + 1
                if w is None:
                    raise Inconclusive("vacuity: assertion site reached with unsatisfiable path condition")
                out['vacuity_witness'] = 1
            bad = None
            for clause in res.clauses:
                cname, phi = clause[0], clause[1]
                strong = clause[2] if len(clause) > 2 else None    # optional: "violated by a visible margin" (preferred counterexamples)
                out['clauses'] = out.get('clauses', 0) + 1
                if not (phi is True or phi is False):
                    out['clauses_solver'] = out.get('clauses_solver', 0) + 1
                m = eng.prove(phi)
                if m is None:
                    out['clauses_ok'] = out.get('clauses_ok', 0) + 1
                if m is not None:
                    t = phi.t if isinstance(phi, SB) else phi
                    negphi = z3.Not(t) if isinstance(t, z3.ExprRef) else z3.BoolVal(True)
                    nm = None
                    try:
                        if strong is not None:
                            st = strong.t if isinstance(strong, SB) else strong
                            if isinstance(st, z3.ExprRef):
                                nm = _nice_model(eng, st, res.inputs) or _extra_model(eng, [st])
                        if nm is None:
                            nm = _nice_model(eng, negphi, res.inputs)
                    except Exception:
                        nm = None
                    m2 = nm or m
                    rec = dict(property=opts['pid'], obligation=oblname, clause=cname, params=params,
                               call=res.call, outcome=res.outcome,
                               inputs=concretise(m2, res.inputs))
                    out['violations'].append(rec)
                    bad = cname
                    break
            for (rname, phi) in res.reach:
                if not out['reach_sat'].get(rname):
                    try:
                        if eng.satisfiable(phi) is not None:
                            out['reach_sat'][rname] = True
                    except Inconclusive:
                        # a reachability query needs ONE sat answer over all paths; unknown on this path is not a verdict
                        out['reach_unknown'] = out.get('reach_unknown', 0) + 1
            if res.diff is not None and do_diff and bad is None:
                dopts = res.diff[2] if len(res.diff) > 2 else {}
                model = None
                if dopts.get('extra'):
                    # extra constraints for the differential model only (e.g. keep variates away from
                    # comparison boundaries so that float and exact evaluation agree)
                    model = _extra_model(eng, dopts['extra'])
                    if model is None:
                        out['diff_skipped'] = out.get('diff_skipped', 0) + 1
                elif dopts.get('nice'):
                    try:
                        model = _nice_model(eng, z3.BoolVal(True), res.inputs)
                    except Exception:
                        model = None
                    if model is None and not _has_real_atoms(res.inputs):
                        model = eng._ensure_model()
                    if model is None:
                        out['diff_skipped'] = out.get('diff_skipped', 0) + 1
                else:
                    model = eng._ensure_model()
            if res.diff is not None and do_diff and bad is None and model is not None:
                conc = concretise(model, res.inputs)
                realfn, symval = res.diff[0], res.diff[1]
                tol = dopts.get('tol', 1e-9)
                try:
                    rv = realfn(conc)
                    sv = concretise(model, symval)
                    if not _same(rv, sv, tol):
                        out['val_mismatch'].append(dict(obligation=oblname, params=params, inputs=conc,
                                                        real=_js(rv), symbolic=sv))
                    else:
                        out['validated'] += 1
                except Exception as e:
                    out['val_mismatch'].append(dict(obligation=oblname, params=params, inputs=conc,
                                                    error='differential run failed: %s: %s' % (type(e).__name__, e)))
            if len(out['samples']) < nsample and res.info is not None:
                try:
                    model = eng._ensure_model()
                    out['samples'].append(dict(obligation=oblname, outcome=res.outcome, path=_brief(res.info, 1500),
                                               example_inputs=_brief(concretise(model, res.inputs), 2500),
                                               path_condition_size=len(eng.solver.assertions()),
                                               clauses_total=len(res.clauses), clauses=sorted(set(c[0] for c in res.clauses))[:25]))
                except Exception:
                    pass
            if len(out['violations']) >= opts.get('max_violations', 3):
                raise _Stop()
        try:
            eng.explore(run, end)
        except _Stop:
            out['stopped'] = True
        out['stats'] = eng.stats
        out['cross_errors'] = getattr(eng, 'cross_errors', [])
        out['executed'] = sorted(tw.executed)
    except Inconclusive as e:
        out['error'] = "INCONCLUSIVE %s: %s" % (type(e).__name__, e)
    except EngineError as e:
        out['error'] = "ENGINE %s" % (e,)
    except BaseException as e:
        out['error'] = "HARNESS %s: %s\n%s" % (type(e).__name__, e, traceback.format_exc()[-2000:])
    out['wall_s'] = time.time() - t0
    return out


class _Stop(BaseException):
    pass


def _js(x):
    try:
        import numpy
        if isinstance(x, numpy.ndarray):
            return _js(x.tolist())
        if isinstance(x, numpy.generic):
            return _js(x.item())
    except ImportError:
        pass
    if isinstance(x, (list, tuple)):
        return [_js(y) for y in x]
    if isinstance(x, dict):
        return {str(k): _js(v) for k, v in x.items()}
    if isinstance(x, (set, frozenset)):
        return sorted(_js(y) for y in x)
    if isinstance(x, (Fraction, float, int, bool)):
        return jnum(x)
    return x


def _same(a, b, tol=1e-9):
    """compare a real result with a symbolic result evaluated under the model"""
    a = _js(a)
    b = _js(b)
    return _same_js(a, b, tol)


def _same_js(a, b, tol):
    if isinstance(a, list) and isinstance(b, list):
        return len(a) == len(b) and all(_same_js(x, y, tol) for x, y in zip(a, b))
    if isinstance(a, dict) and isinstance(b, dict):
        return set(a) == set(b) and all(_same_js(a[k], b[k], tol) for k in a)
    if isinstance(a, (list, dict)) or isinstance(b, (list, dict)):
        return False
    x, y = unj(a), unj(b)
    if isinstance(x, bool) or isinstance(y, bool) or x is None or y is None or isinstance(x, str) or isinstance(y, str):
        return x == y
    try:
        fx, fy = float(x), float(y)
    except Exception:
        return x == y
    return abs(fx - fy) <= tol * max(1.0, abs(fx), abs(fy))


_REPLAYED = {}


def _replay_once(mod, rec):
    """replay a counterexample on the real library ONCE (a defect with process-global state would make a second
    replay in the same process start from a polluted state); memoising caches of the real modules are cleared first"""
    key = json.dumps([rec.get('obligation'), rec.get('clause'), rec.get('call'), rec.get('inputs')], sort_keys=True, default=str)
    if key in _REPLAYED:
        return _REPLAYED[key]
    try:
        for name, m in list(sys.modules.items()):
            if name == 'sempler' or name.startswith('sempler.') or name == 'drf' or name.startswith('drf.'):
                for v in list(vars(m).values()):
                    if type(v).__name__ == 'module':
                        continue
                    cc = getattr(v, 'cache_clear', None)
                    if callable(cc):
                        cc()
    except Exception:
        pass
    try:
        ok, detail = mod.replay(rec)
    except BaseException as e:
        ok, detail = False, "replay crashed: %s: %s" % (type(e).__name__, e)
    _REPLAYED[key] = (ok, detail)
    return ok, detail


# ---------------------------------------------------------------------------
# known findings

def load_known():
    p = os.path.join(VERIF, 'known_findings.json')
    if not os.path.exists(p):
        return []
    with open(p) as f:
        return json.load(f).get('entries', [])


def match_known(rec, known):
    for k in known:
        if k.get('status') != 'finding' or k.get('property') != rec['property']:
            continue
        m = k.get('match', {})
        ok = True
        for key, val in m.items():
            if key == 'params':
                for pk, pv in val.items():
                    if rec.get('params', {}).get(pk) != pv:
                        ok = False
            elif rec.get(key) != val:
                ok = False
        if ok:
            return k
    return None


# ---------------------------------------------------------------------------

def run_check(modname, pid, tier, meta):
    """run all obligations of a property; write evidence; return exit code"""
    t0 = time.time()
    seed = int(os.environ.get('VERIF_SEED', '0') or 0)
    mod = sys.modules[modname]
    evidence_dir = os.environ.get('VERIF_EVIDENCE_DIR', os.path.join(VERIF, 'evidence'))
    os.makedirs(evidence_dir, exist_ok=True)
    try:
        tw = get_twin()
        obls = mod.obligations(tier)
    except BaseException as e:
        print("INCONCLUSIVE property=%s cannot load the repository source: %s: %s" % (pid, type(e).__name__, e))
        traceback.print_exc()
        return 2
    only = os.environ.get('VERIF_ONLY')
    if only:
        obls = [o for o in obls if o.name in only.split(',')]
    opts = dict(pid=pid, tier=tier, diff=os.environ.get('VERIF_NODIFF') is None)
    tasks = []
    only_cubes = os.environ.get('VERIF_CUBES')
    for o in obls:
        for ci in range(len(o.cubes)):
            if only_cubes and str(ci) not in only_cubes.split(','):
                continue
            tasks.append((o.weight, (modname, o.name, ci, opts)))
    # heavier first; seed permutes ties only
    tasks.sort(key=lambda t: -t[0])
    tasks = [t[1] for t in tasks]
    results = []
    early_stop = False
    nproc = min(NPROC, max(1, len(tasks)))
    if nproc == 1 or os.environ.get('VERIF_SERIAL'):
        for t in tasks:
            results.append(run_task(t))
    else:
        ctx = multiprocessing.get_context('fork')
        # a wall budget always applies (a solver call that ignores its timeout must not hang the check): exit 2 when exhausted
        budget = float(os.environ.get('VERIF_BUDGET_S', '') or (1500 if tier == 'quick' else 7200))
        with ctx.Pool(nproc, maxtasksperchild=None) as pool:
            it = pool.imap_unordered(run_task, tasks, chunksize=1)
            while True:
                try:
                    r = it.next(timeout=5)
                except multiprocessing.TimeoutError:
                    if budget and time.time() - t0 > budget:
                        results.append(dict(obl='-', cube=-1, paths=0, outcomes={}, violations=[], samples=[],
                                            error='INCONCLUSIVE wall budget of %ds exhausted' % budget, validated=0,
                                            val_mismatch=[], reach_sat={}, vacuity_witness=0, stats={}, executed=[], wall_s=0))
                        pool.terminate()
                        break
                    continue
                except StopIteration:
                    break
                results.append(r)
                # stop early once a violation has been confirmed on the real code
                if r['violations'] and not os.environ.get('VERIF_ALL_VIOLATIONS'):
                    hit = False
                    for rec in r['violations']:
                        ok = _replay_once(mod, rec)[0]
                        if ok:
                            hit = True
                            break
                    if hit:
                        early_stop = True
                        pool.terminate()
                        break
    # aggregate
    errors = [r for r in results if r['error']]
    stats = {}
    outcomes = {}
    per_obl = {}
    executed = set()
    samples = []
    violations = []
    mismatches = []
    validated = 0
    reach = {}
    for r in results:
        for k, v in r['stats'].items():
            if k == 'max_depth':
                stats[k] = max(stats.get(k, 0), v)
            else:
                stats[k] = stats.get(k, 0) + v
        po = per_obl.setdefault(r['obl'], dict(paths=0, cubes=0, outcomes={}, wall_s=0.0, reach={}))
        po['paths'] += r['paths']
        po['cubes'] += 1
        po['wall_s'] += r['wall_s']
        for k, v in r['outcomes'].items():
            po['outcomes'][k] = po['outcomes'].get(k, 0) + v
        for k, v in r['reach_sat'].items():
            po['reach'][k] = True
        executed.update(r['executed'])
        violations.extend(r['violations'])
        mismatches.extend(r['val_mismatch'])
        validated += r['validated']
        if len(samples) < 6:
            samples.extend(r['samples'][:1])
    exit_code = 0
    msgs = []
    # vacuity guards
    for o in obls:
        po = per_obl.get(o.name, dict(paths=0, outcomes={}, reach={}))
        if early_stop:
            break
        if not [r for r in results if r['obl'] == o.name and (r['error'] or r.get('stopped'))]:
            for ex in o.expect:
                if po['outcomes'].get(ex, 0) == 0:
                    msgs.append("INCONCLUSIVE property=%s vacuity guard: obligation %s never reached outcome %r" % (pid, o.name, ex))
                    exit_code = 2
            for rn in o.reach_expect:
                if not po['reach'].get(rn):
                    violations.append(dict(property=pid, obligation=o.name, clause='reach:' + rn, params={},
                                           call='reach', outcome='unreachable', inputs={},
                                           note='reachability clause never satisfiable on any path'))
    for e in errors:
        msgs.append("INCONCLUSIVE property=%s obligation=%s cube=%s: %s" % (pid, e['obl'], e['cube'], e['error']))
        exit_code = 2
    for mm in mismatches[:5]:
        msgs.append("INCONCLUSIVE property=%s shim/real disagreement (differential validation): %s" % (pid, json.dumps(mm)[:600]))
        exit_code = 2
    # replay violations on the real code
    known = load_known()
    confirmed = []
    known_hits = []
    seen = set()
    for rec in violations:
        key = json.dumps([rec['obligation'], rec['clause'], rec.get('inputs')], sort_keys=True, default=str)
        if key in seen:
            continue
        seen.add(key)
        ok, detail = _replay_once(mod, rec)
        rec['replay_detail'] = detail
        if not ok:
            msgs.append("INCONCLUSIVE property=%s counterexample did not reproduce on the real code (obligation %s, clause %s): %s | inputs=%s"
                        % (pid, rec['obligation'], rec['clause'], detail, json.dumps(rec.get('inputs'))[:500]))
            if exit_code == 0:
                exit_code = 2
            continue
        k = match_known(rec, known)
        if k is not None:
            known_hits.append((k, rec))
            continue
        confirmed.append(rec)
    printed = set()
    for k, rec in known_hits:
        if k['id'] not in printed:
            printed.add(k['id'])
            print("KNOWN-FINDING: property=%s %s" % (pid, k.get('what', k['id'])))
    if confirmed:
        exit_code = 1
        rdir = os.path.join(os.environ.get('VERIF_REPLAY_DIR', os.path.join(VERIF, 'replays')), pid)
        os.makedirs(rdir, exist_ok=True)
        for rec in confirmed[:10]:
            h = hashlib.sha1(json.dumps(rec, sort_keys=True, default=str).encode()).hexdigest()[:12]
            path = os.path.join(rdir, h + '.json')
            with open(path, 'w') as f:
                json.dump(rec, f, indent=1, default=str)
            print("VIOLATION property=%s replay=%s" % (pid, path))
            print("  obligation=%s clause=%s outcome=%s inputs=%s\n  %s" % (
                rec['obligation'], rec['clause'], rec['outcome'], json.dumps(rec.get('inputs'))[:400], rec.get('replay_detail')))
    for m in msgs:
        print(m)
    wall = time.time() - t0
    paths = sum(r['paths'] for r in results)
    ev = dict(
        property_id=pid, tier=tier, seed=seed, level='model_checking',
        coverage=dict(
            states=max(paths, 0), transitions=stats.get('decisions', 0) + stats.get('replayed', 0),
            traces_validated_against_impl=validated,
            samples=samples if samples else [dict(note='no path completed')],
            exhaustive=(exit_code == 0),
            explanation=meta.get('explanation', ''),
            technique="bounded symbolic execution of the unmodified /repo source through the symnp shim; every branch on a symbolic value and every property clause decided by z3 (unsat = holds for all inputs of the path)",
            functions_encoded=sorted(executed),
            bounds=meta.get('bounds', {}).get(tier, meta.get('bounds')),
            outside_the_claim=meta.get('outside', []),
            stubs=meta.get('stubs', []),
            obligations=sum(r.get('clauses', 0) for r in results),
            discharged=sum(r.get('clauses_ok', 0) for r in results),
            clauses_decided_by_solver=sum(r.get('clauses_solver', 0) for r in results),
            obligation_details={k: dict(paths=v['paths'], cubes=v['cubes'], outcomes=v['outcomes'],
                                 reachability=sorted(v['reach']), cpu_s=round(v['wall_s'], 2),
                                 descr=([o.descr for o in obls if o.name == k] or ['-'])[0])
                         for k, v in per_obl.items()},
            queries=dict(feasibility=stats.get('feas_queries', 0), property=stats.get('prop_queries', 0),
                         total=stats.get('solver_calls', 0), folded_by_facts=stats.get('folded', 0),
                         forced_decisions=stats.get('forced', 0), new_decisions=stats.get('decisions', 0),
                         replayed_decisions=stats.get('replayed', 0), max_decision_depth=stats.get('max_depth', 0),
                         cross_solver=dict(solver='cvc5 (python API) on SMT-LIB2 exported by z3', sampled=stats.get('cross_checked', 0),
                                           agreed_unsat=stats.get('cross_agree', 0), unknown=stats.get('cross_unknown', 0),
                                           errors=stats.get('cross_error', 0), error_examples=sorted(set(x for r in results for x in r.get('cross_errors', [])))[:3], seconds=round(stats.get('cross_s', 0.0), 2),
                                           rule='per cube: every 37th discharged property query (offset VERIF_SEED), at most VERIF_CVC5_PER_CUBE=2')),
            solver_s=round(stats.get('solver_s', 0.0), 3), solver='z3 ' + z3.get_version_string(),
            paths=paths, infeasible_paths=stats.get('infeasible_paths', 0),
            violations_confirmed=len(confirmed), known_findings=sorted(printed),
            inconclusive=[m[:300] for m in msgs],
            workers=nproc,
        ),
        assumptions=meta.get('assumptions', []),
        wall_s=round(wall, 2), violations=len(confirmed),
    )
    # second engine (thorough tier only): a harness may provide audit() -> dict(engine, result, detail, disagreement)
    audit = getattr(mod, 'audit', None)
    if audit is not None and tier == 'thorough' and not os.environ.get('VERIF_NO_AUDIT'):
        try:
            ares = audit()
        except BaseException as ex:
            ares = dict(engine='?', result='audit crashed: %s: %s' % (type(ex).__name__, ex), disagreement=False)
        ev['coverage']['audit'] = ares
        print("AUDIT property=%s %s: %s" % (pid, ares.get('engine'), ares.get('result')))
        if ares.get('disagreement') and exit_code == 0:
            exit_code = 2
            print("INCONCLUSIVE property=%s the auditing engine reports a counterexample the primary engine did not find: %s" % (pid, ares.get('detail')))
            ev['coverage']['exhaustive'] = False
    if paths == 0:
        ev['coverage']['states'] = 1
        ev['coverage']['transitions'] = 1
    if ev['coverage']['transitions'] == 0:
        ev['coverage']['transitions'] = 1
    if not os.environ.get('VERIF_NO_EVIDENCE'):
        with open(os.path.join(evidence_dir, pid + '.json'), 'w') as f:
            json.dump(ev, f, indent=1, default=str)
    print("%s %s tier=%s paths=%d solver_calls=%d solver_s=%.1f validated=%d wall=%.1fs exit=%d" % (
        pid, 'HOLDS' if exit_code == 0 else ('VIOLATED' if exit_code == 1 else 'INCONCLUSIVE'),
        tier, paths, stats.get('solver_calls', 0), stats.get('solver_s', 0.0), validated, wall, exit_code))
    return exit_code
