"""C12 -- Sampled intervention targets respect size, range and disjointness."""
import itertools
import symnp as np
from symx.core import SV
from harness.common import Obligation, PathResult, real_sempler, unj
from harness import rngscript
from oracles import graph as G

PID = 'C12'

META = dict(
    explanation="generators.intervention_targets is executed with SYMBOLIC integers K, size / (lo, hi) and a symbolic seed for every p in "
                "the bound (numpy.random.default_rng is the contract stub: integers(lo, hi) = any value in [lo, hi), choice(..., "
                "replace=False) = any tuple of distinct positions). z3 decides per path: ValueError is raised exactly when max size > p, "
                "or size is a tuple of length != 2, or replace=False and max size x K > p (integer boundary conditions decided "
                "symbolically); otherwise exactly K lists are returned, each of distinct variables in 0..p-1, of length `size` / within "
                "[lo, hi], pairwise disjoint when replace=False - for EVERY outcome of the generator. Reachability queries (sat): "
                "sizes lo, hi and a size strictly between occur, and every variable 0..p-1 occurs, for some generator outcome.",
    bounds=dict(quick="p in 1..5; K in 0..3 symbolic; size an integer in 0..6 or a range 0 <= lo <= hi <= 6 (symbolic), or a 1-/3-tuple; replace in {True, False}; all generator outcomes",
                thorough="p in 1..6; K in 0..4; sizes 0..7; plus a CrossHair audit (second engine) of the size / range / disjointness / ValueError contract at p <= 3, K <= 2, sizes <= 4"),
    outside=["negative sizes / K, lo > hi", "the distribution (uniformity) of the sampled sizes and targets", "p > 6"],
    stubs=["numpy -> symnp", "numpy.random.default_rng -> contract stub (integers, choice)"],
    assumptions=["z3 sound (linear integer arithmetic)", "numpy's Generator.integers / choice satisfy their documented contract"],
)


def _expected_error(p, K, style, size, replace):
    """from the statement"""
    if style in ('bad1', 'bad3'):
        return True
    mx = size if style == 'int' else size[1]
    return G.Or(G.T(mx > p), (G.T(mx * K > p) if not replace else False))


def h_targets(ctx):
    e = ctx.eng
    P = ctx.params
    gen = ctx.mod('sempler.generators')
    p = P['p']
    style, replace = P['style'], P['replace']
    K = e.int('K')
    e.assume(K >= 0)
    e.assume(K <= P['Kmax'])
    seed = e.int('seed')
    e.assume(seed >= 0)
    smax = P['smax']
    if style == 'int':
        size = e.int('size')
        e.assume(size >= 0)
        e.assume(size <= smax)
        lo = hi = size
        arg = size
    else:
        lo, hi = e.int('lo'), e.int('hi')
        e.assume(lo >= 0)
        e.assume(lo <= hi)
        e.assume(hi <= smax)
        size = (lo, hi)
        arg = {'range': (lo, hi), 'bad1': (lo,), 'bad3': (lo, hi, hi)}[style]
    exp_err = _expected_error(p, K, style, size, replace)
    cl = []
    reach = []
    sym = None
    res = None
    try:
        res = gen.intervention_targets(p, K, arg, replace=replace, random_state=seed)
        outcome = 'returned'
        cl.append(('no ValueError only when the request is feasible (max size <= p, 2-tuple, max size x K <= p without replacement)', G.Not(exp_err)))
        ok = isinstance(res, list) and all(isinstance(x, list) for x in res)
        cl.append(('a list of lists is returned', ok))
        if ok:
            cl.append(('exactly K interventions', G.T(len(res) == K)))
            for i, iv in enumerate(res):
                cl.append(('intervention %d: length is the requested size / inside [lo, hi]' % i, G.And(G.T(len(iv) >= lo), G.T(len(iv) <= hi))))
                cl.append(('intervention %d: targets are variables 0..p-1' % i, G.And([G.And(G.T(x >= 0), G.T(x < p)) for x in iv])))
                cl.append(('intervention %d: targets are distinct' % i, G.And([G.T(a != b) for a, b in itertools.combinations(iv, 2)])))
            if not replace:
                allt = [(i, x) for i, iv in enumerate(res) for x in iv]
                cl.append(('without replacement no variable occurs in two interventions',
                           G.And([G.T(a != b) for (i, a), (j, b) in itertools.combinations(allt, 2) if i != j])))
            if res:
                n0 = len(res[0])
                reach.append(('size = lo occurs', G.Z(G.T(lo == n0))))
                reach.append(('size = hi occurs (lo < hi)', G.Z(G.And(G.T(hi == n0), G.T(lo < hi)))))
                reach.append(('a size strictly inside the range occurs', G.Z(G.And(G.T(lo < n0), G.T(n0 < hi)))))
                for v in range(p):
                    reach.append(('variable %d occurs' % v, G.Z(G.Or([G.T(x == v) for iv in res for x in iv]))))
                    if not replace:
                        reach.append(('variable %d occurs without replacement' % v, G.Z(G.Or([G.T(x == v) for iv in res for x in iv]))))
                        reach.append(('variable %d occurs without replacement although not all variables are used' % v,
                                      G.Z(G.And(G.Or([G.T(x == v) for iv in res for x in iv]), G.T(hi * K < p)))))
                if len(res) > 1 and replace:
                    reach.append(('with replacement a variable can occur in two interventions',
                                  G.Z(G.Or([G.T(a == b) for a in res[0] for b in res[1]]))))
            sym = ['ok', [list(iv) for iv in res]]
    except ValueError as ex:
        outcome = 'raised ValueError'
        cl.append(('ValueError exactly when max size > p, or size is not a 2-tuple, or (replace=False and max size x K > p)', exp_err))
        sym = ['ValueError']
    except Exception as ex:
        outcome = 'raised ' + type(ex).__name__
        cl.append(('only ValueError may be raised (%s: %s)' % (type(ex).__name__, str(ex)[:80]), False))
        sym = [type(ex).__name__]
    inputs = dict(p=p, K=K, style=style, lo=lo, hi=hi, replace=replace, seed=seed, rng=rngscript.script(np.random.LOG))
    return PathResult(outcome, cl, inputs=inputs, call='targets', info=dict(p=p, style=style, replace=replace),
                      diff=(_real, sym), reach=reach)


def _arg(inp):
    lo, hi = int(unj(inp['lo'])), int(unj(inp['hi']))
    return {'int': lo, 'range': (lo, hi), 'bad1': (lo,), 'bad3': (lo, hi, hi)}[inp['style']]


def _real(inp, scripted=True):
    s = real_sempler()
    p, K = int(inp['p']), int(unj(inp['K']))
    try:
        if scripted:
            with rngscript.scripted(inp.get('rng')):
                res = s.generators.intervention_targets(p, K, _arg(inp), replace=inp['replace'], random_state=int(unj(inp['seed'])))
        else:
            res = s.generators.intervention_targets(p, K, _arg(inp), replace=inp['replace'], random_state=int(unj(inp['seed'])))
        return ['ok', [[int(x) for x in iv] for iv in res]]
    except rngscript.ScriptError:
        raise
    except Exception as ex:
        return [type(ex).__name__]


def _concrete_bad(p, K, style, lo, hi, replace, out):
    """concrete oracle: list of problems of one outcome"""
    bad = []
    mx = hi
    exp_err = style in ('bad1', 'bad3') or mx > p or ((not replace) and mx * K > p)
    if out[0] != 'ok':
        if out[0] != 'ValueError':
            bad.append('raised %s' % out[0])
        elif not exp_err:
            bad.append('ValueError although the request is feasible')
        return bad
    if exp_err:
        bad.append('no ValueError although the request is infeasible / malformed')
        return bad
    res = out[1]
    if len(res) != K:
        bad.append('%d interventions instead of %d' % (len(res), K))
    seen = set()
    for iv in res:
        if not (lo <= len(iv) <= hi):
            bad.append('intervention %s has a size outside [%d, %d]' % (iv, lo, hi))
        if len(set(iv)) != len(iv):
            bad.append('repeated target in %s' % iv)
        if any(x < 0 or x >= p for x in iv):
            bad.append('target outside 0..p-1 in %s' % iv)
        if not replace and seen & set(iv):
            bad.append('variable(s) %s occur in two interventions' % sorted(seen & set(iv)))
        seen |= set(iv)
    return bad


def replay(rec):
    if rec['call'] == 'reach':
        return _replay_reach(rec)
    inp = rec['inputs']
    p, K = int(inp['p']), int(unj(inp['K']))
    lo, hi = int(unj(inp['lo'])), int(unj(inp['hi']))
    try:
        out = _real(inp, scripted=True)
        how = 'generator outcomes chosen by the solver'
    except rngscript.ScriptError as ex:
        return (False, 'scripted replay impossible: %s' % ex)
    bad = _concrete_bad(p, K, inp['style'], lo, hi, inp['replace'], out)
    # look for a natural seed showing the same kind of problem (reported, not required)
    natural = None
    if bad:
        s = real_sempler()
        for sd in range(300):
            try:
                r = s.generators.intervention_targets(p, K, _arg(inp), replace=inp['replace'], random_state=sd)
                o = ['ok', [[int(x) for x in iv] for iv in r]]
            except Exception as ex:
                o = [type(ex).__name__]
            if _concrete_bad(p, K, inp['style'], lo, hi, inp['replace'], o):
                natural = sd
                break
    return (len(bad) > 0, 'intervention_targets(p=%d, K=%d, size=%s, replace=%s) with %s -> %s: %s%s' % (
        p, K, _arg(inp), inp['replace'], how, out, '; '.join(bad[:3]) or 'as specified',
        (' [also with the real generator at random_state=%d]' % natural) if natural is not None else ''))


def _replay_reach(rec):
    """a reachability clause was never satisfiable: confirm on the real generator that it does not occur over a grid of arguments / seeds"""
    s = real_sempler()
    p = int(rec['obligation'].split('_p')[1])
    name = rec['clause'][len('reach:'):]
    hit = False
    tried = 0
    for K in (1, 2, 3):
        for (lo, hi) in [(0, p), (0, 2), (1, 3), (1, 2), (0, 1), (2, 3)]:
            if hi > p:
                continue
            for replace in (True, False):
                if not replace and hi * K > p:
                    continue
                for sd in range(60):
                    try:
                        r = s.generators.intervention_targets(p, K, (lo, hi), replace=replace, random_state=sd)
                    except Exception:
                        continue
                    tried += 1
                    n0 = len(r[0])
                    if name.startswith('size = lo'):
                        hit |= (n0 == lo)
                    elif name.startswith('size = hi'):
                        hit |= (n0 == hi and lo < hi)
                    elif name.startswith('a size strictly'):
                        hit |= (lo < n0 < hi)
                    elif name.startswith('variable'):
                        v = int(name.split()[1])
                        if 'without replacement' in name and replace:
                            continue
                        if 'although not all' in name and not hi * K < p:
                            continue
                        hit |= any(v in iv for iv in r)
                    elif name.startswith('with replacement'):
                        hit |= (replace and len(r) > 1 and bool(set(r[0]) & set(r[1])))
    return (not hit, 'p=%d: "%s" %s in %d real calls over K, (lo, hi), replace and 60 seeds each' % (p, name, 'occurred' if hit else 'NEVER occurred', tried))


def audit():
    """thorough tier: the same contract re-checked by CrossHair (its own symbolic ints / lists, its own path
    exploration) on the real source with a stand-in generator driven by a symbolic list of picks"""
    import os
    import subprocess
    import sys
    import time
    verif = os.path.dirname(os.path.dirname(os.path.abspath(__file__)))
    env = dict(os.environ)
    env['PYTHONPATH'] = os.path.join(verif, '.deps')
    t0 = time.time()
    try:
        r = subprocess.run([sys.executable, '-m', 'crosshair', 'check', '--report_all', '--per_condition_timeout', '400',
                            os.path.join(verif, 'audit', 'c12_crosshair.py')], capture_output=True, text=True, env=env, timeout=1000, cwd=verif)
        out = (r.stdout + r.stderr).strip().splitlines()
    except subprocess.TimeoutExpired:
        return dict(engine='CrossHair', result='timeout (inconclusive audit)', disagreement=False, seconds=round(time.time() - t0, 1))
    lines = [l.split('c12_crosshair.py:')[-1] for l in out if 'c12_crosshair.py' in l]
    confirmed = sum(1 for l in lines if 'Confirmed over all paths' in l)
    errors = [l for l in lines if ' error: ' in l]
    res = 'Confirmed over all paths for %d of 2 conditions' % confirmed if not errors else 'counterexample reported'
    return dict(engine='CrossHair 0.0.110 (crosshair check --report_all --per_condition_timeout 400)', result=res, detail=lines,
                bounds='p <= 3, K <= 2, size / (lo, hi) <= 4, 4 generator picks in 0..5; generator = stand-in driven by a symbolic list',
                disagreement=bool(errors), seconds=round(time.time() - t0, 1))


def obligations(tier):
    pmax, Kmax, smax = (5, 3, 6) if tier == 'quick' else (6, 4, 7)
    ob = []
    for p in range(1, pmax + 1):
        cubes = [dict(p=p, style=st, replace=rp, Kmax=Kmax, smax=smax) for st in ('int', 'range', 'bad1', 'bad3') for rp in (True, False)]
        reach = ['size = lo occurs', 'variable 0 occurs', 'variable %d occurs' % (p - 1)] + ['variable %d occurs without replacement' % v for v in range(p)]
        if p >= 2:
            reach += ['variable %d occurs without replacement although not all variables are used' % v for v in range(p)]
        if p >= 2:
            reach += ['size = hi occurs (lo < hi)', 'with replacement a variable can occur in two interventions'] + ['variable %d occurs' % v for v in range(p)]
        if p >= 3:
            reach += ['a size strictly inside the range occurs']
        ob.append(Obligation('targets_p%d' % p, h_targets, cubes,
                             "intervention_targets(p=%d, K, size, replace, seed) with symbolic K, size / (lo, hi), seed and every generator outcome" % p,
                             expect=('returned', 'raised ValueError'), reach_expect=tuple(dict.fromkeys(reach)), weight=p * p))
    return ob
