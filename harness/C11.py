"""C11 -- Random DAG generators return valid DAGs with a valid ordering."""
import itertools
import z3
import symnp as np
from symx.core import SV, SB
from harness.common import Obligation, PathResult, real_sempler, unj, unj_float
from harness import rngscript
from oracles import graph as G

PID = 'C11'

META = dict(
    explanation="generators.dag_avg_deg and dag_full are executed with symbolic real k, w_min <= w_max (any sign) and a symbolic seed; "
                "numpy.random.default_rng is the contract stub, so the uniform matrix, the weights and the permutation are arbitrary "
                "outcomes allowed by the contract (0 <= U < 1, any permutation): the engine forks over the p! permutations, the Bernoulli "
                "mask and the weights stay symbolic (if-then-else terms over the variates). z3 decides per path, for ALL variates: p x p "
                "result, zero diagonal, acyclic non-zero pattern (closure formula), non-zero entries inside [w_min, w_max], returned "
                "ordering is a permutation and a topological order; dag_full: every pair adjacent whenever 0 is outside the range; "
                "dag_avg_deg: each unordered pair of nodes has its OWN variate U of the mask draw (distinct cells, found by solver "
                "queries + a matching) with U < k/(p-1) => joined and U > k/(p-1) => not joined, i.e. independent Bernoulli(k/(p-1)) "
                "inclusions. Reachability (sat queries): every node takes every position of the returned ordering; without the ordering, "
                "edges from higher to lower indices occur.",
    bounds=dict(quick="dag_avg_deg p in {2,3,4}; dag_full p in {0,1,2,3,4}; all permutations, all variates, k in [0,p-1], any w_min <= w_max; with and without return_ordering",
                thorough="as quick plus p = 5 (120 permutations) for both generators"),
    outside=["the distribution over permutations (uniformity) and of the variates: numpy's generator is trusted to realise its contract", "p > 5", "debug=True printing"],
    stubs=["numpy -> symnp", "numpy.random.default_rng -> contract stub (uniform, permutation)"],
    assumptions=["z3 sound (QF_NRA/UF)", "Generator.uniform(size) returns independent variates in [0,1); Generator.permutation returns a permutation"],
)


def _mk_h(which):
    def fn(ctx):
        e = ctx.eng
        p, ro = ctx.params['p'], ctx.params['ordering']
        gen = ctx.mod('sempler.generators')
        wmin, wmax = e.real('w_min'), e.real('w_max')
        e.assume(wmin <= wmax)
        seed = e.int('seed')
        e.assume(seed >= 0)
        k = None
        if which == 'avg':
            k = e.real('k')
            e.assume(k >= 0)
            e.assume(k <= p - 1)
        cl = []
        reach = []
        sym = None
        extra = []
        try:
            if ctx.params.get('second_call'):
                # an earlier call with the same p (other weights) must not influence this one
                w0 = e.real('w_prev')
                (gen.dag_avg_deg(p, k, w0, w0, random_state=seed + 1) if which == 'avg' else gen.dag_full(p, w0, w0, random_state=seed + 1))
                np.random.LOG[:] = [r for r in np.random.LOG if False]
            if which == 'avg':
                out = gen.dag_avg_deg(p, k, wmin, wmax, return_ordering=ro, random_state=seed)
            else:
                out = gen.dag_full(p, wmin, wmax, return_ordering=ro, random_state=seed)
            outcome = 'returned'
            if ro:
                okt = isinstance(out, tuple) and len(out) == 2
                cl.append(('(W, ordering) is returned on request', okt))
                W, ordering = out if okt else (None, None)
            else:
                W, ordering = out, None
            ok = isinstance(W, np.ndarray) and W.shape == (p, p)
            cl.append(('the result is a p x p matrix', ok))
            if ok:
                nz = [[G.T(W[i, j] != 0) for j in range(p)] for i in range(p)]
                cl.append(('zero diagonal', G.And([G.T(W[i, i] == 0) for i in range(p)])))
                cl.append(('the non-zero pattern is acyclic', G.acyclic(nz)))
                for i in range(p):
                    for j in range(p):
                        if i != j:
                            cl.append(('non-zero entries lie in [w_min, w_max]', G.Or(G.T(W[i, j] == 0), G.And(G.T(W[i, j] >= wmin), G.T(W[i, j] <= wmax)))))
                outside0 = G.Or(G.T(wmin > 0), G.T(wmax < 0))
                if which == 'full':
                    cl.append(('dag_full: every pair of nodes is adjacent whenever 0 is outside [w_min, w_max]',
                               G.Implies(outside0, G.And([G.Or(nz[i][j], nz[j][i]) for i in range(p) for j in range(i + 1, p)]))))
                else:
                    ulog = [r for r in np.random.LOG if r['op'] == 'uniform']
                    okd = len(ulog) >= 1 and len(ulog[0]['u']) >= p * (p - 1) // 2
                    if okd:
                        us = ulog[0]['u']
                        prob = k / (p - 1)
                        cand = {}
                        for (a, b) in itertools.combinations(range(p), 2):
                            adj = G.Or(nz[a][b], nz[b][a])
                            good = []
                            for c, u in enumerate(us):
                                phi = G.Implies(outside0, G.And(G.Implies(G.T(u < prob), adj), G.Implies(G.T(u > prob), G.Not(adj))))
                                if e.prove(G.Z(phi)) is None:
                                    good.append(c)
                            cand[(a, b)] = good
                        okd = _matching(cand)
                        for u in us:
                            extra.append(z3.Or((u >= prob + 0.001).t, (u <= prob - 0.001).t) if isinstance(u >= prob + 0.001, SB) else z3.BoolVal(True))
                    cl.append(('dag_avg_deg: every pair of nodes is joined iff its own uniform variate is below k/(p-1) (independent Bernoulli(k/(p-1)) inclusions)', okd))
                if ro:
                    oko = isinstance(ordering, np.ndarray) and ordering.shape == (p,)
                    cl.append(('the ordering has one entry per node', oko))
                    if oko:
                        o = [ordering[i] for i in range(p)]
                        cl.append(('the ordering is a permutation of the nodes',
                                   G.And([G.And(G.T(x >= 0), G.T(x < p)) for x in o] + [G.T(a != b) for a, b in itertools.combinations(o, 2)])))
                        # topological: for every edge i -> j, i comes before j
                        pos_before = []
                        for i in range(p):
                            for j in range(p):
                                if i != j:
                                    before = G.Or([G.And(G.T(o[a] == i), G.T(o[b] == j)) for a in range(p) for b in range(a + 1, p)])
                                    pos_before.append(G.Implies(nz[i][j], before))
                        cl.append(('the ordering is a topological order of the returned graph', G.And(pos_before)))
                        for q in range(p):
                            for v in range(p):
                                reach.append(('node %d can take position %d' % (v, q), G.Z(G.T(o[q] == v))))
                else:
                    reach.append(('edges from a higher to a lower index occur', G.Z(G.Or([nz[i][j] for i in range(p) for j in range(i)]))))
                    reach.append(('edges from a lower to a higher index occur', G.Z(G.Or([nz[i][j] for i in range(p) for j in range(i + 1, p)]))))
                sym = ['ok', W.tolist(), ordering.tolist() if (ro and oko) else None]
        except Exception as ex:
            outcome = 'raised ' + type(ex).__name__
            cl.append(('the generator must not raise (%s: %s)' % (type(ex).__name__, str(ex)[:80]), False))
            sym = [type(ex).__name__]
        # differential model: dyadic parameters
        for v, sc in ((wmin, 8), (wmax, 8), (k, 8)):
            if v is not None:
                t = z3.FreshInt('nice')
                extra.append(v.zterm() * sc == z3.ToReal(t))
                extra.append(z3.And(t >= -64, t <= 64))
        inputs = dict(which=which, p=p, k=k, w_min=wmin, w_max=wmax, ordering=ro, seed=seed, rng=rngscript.script(np.random.LOG),
                      second_call=bool(ctx.params.get('second_call')))
        return PathResult(outcome, cl, inputs=inputs, call='gen', info=dict(which=which, p=p, ordering=ro),
                          diff=(_real, sym, dict(extra=extra, tol=1e-9)), reach=reach)
    return fn


def _matching(cand):
    """is there a system of distinct representatives?"""
    match = {}

    def aug(pair, seen):
        for c in cand[pair]:
            if c in seen:
                continue
            seen.add(c)
            if c not in match or aug(match[c], seen):
                match[c] = pair
                return True
        return False
    return all(aug(pr, set()) for pr in cand)


def _call(inp, scripted=True, seed=None):
    s = real_sempler()
    p = int(inp['p'])
    wmin, wmax = float(unj(inp['w_min'])), float(unj(inp['w_max']))
    sd = int(unj(inp['seed'])) if seed is None else seed
    kw = dict(return_ordering=inp['ordering'], random_state=sd)

    def go():
        if inp['which'] == 'avg':
            return s.generators.dag_avg_deg(p, float(unj(inp['k'])), wmin, wmax, **kw)
        return s.generators.dag_full(p, wmin, wmax, **kw)
    if inp.get('second_call'):
        # the earlier call with the same p (real generator), then the call under test
        if inp['which'] == 'avg':
            s.generators.dag_avg_deg(p, float(unj(inp['k'])), 3.0, 3.0, random_state=sd + 1)
        else:
            s.generators.dag_full(p, 3.0, 3.0, random_state=sd + 1)
    if scripted:
        with rngscript.scripted(inp.get('rng')):
            return go()
    return go()


def _real(inp):
    try:
        out = _call(inp)
    except rngscript.ScriptError:
        raise
    except Exception as ex:
        return [type(ex).__name__]
    if inp['ordering']:
        return ['ok', out[0].tolist(), [int(x) for x in out[1]]]
    return ['ok', out.tolist(), None]


def _concrete_bad(inp, out):
    import numpy
    p = int(inp['p'])
    wmin, wmax = float(unj(inp['w_min'])), float(unj(inp['w_max']))
    bad = []
    if inp['ordering']:
        if not (isinstance(out, tuple) and len(out) == 2):
            return ['no (W, ordering) tuple']
        W, o = out
    else:
        W, o = out, None
    W = numpy.asarray(W)
    if W.shape != (p, p):
        return ['shape %s' % (W.shape,)]
    nz = [[bool(W[i, j] != 0) for j in range(p)] for i in range(p)]
    if any(nz[i][i] for i in range(p)):
        bad.append('non-zero diagonal')
    if not G.c_is_acyclic(nz):
        bad.append('the returned graph has a cycle')
    tol = 1e-12 * max(1.0, abs(wmin), abs(wmax))
    if any(nz[i][j] and not (wmin - tol <= W[i, j] <= wmax + tol) for i in range(p) for j in range(p)):
        bad.append('a weight lies outside [w_min, w_max]')
    if inp['which'] == 'full' and (wmin > 0 or wmax < 0):
        if any(not (nz[i][j] or nz[j][i]) for i in range(p) for j in range(i + 1, p)):
            bad.append('dag_full graph is not complete although 0 is outside the weight range')
    if o is not None:
        o = [int(x) for x in o]
        if sorted(o) != list(range(p)):
            bad.append('ordering %s is not a permutation' % o)
        else:
            pos = {v: q for q, v in enumerate(o)}
            if any(nz[i][j] and pos[i] > pos[j] for i in range(p) for j in range(p)):
                bad.append('ordering %s is not a topological order of the returned graph' % o)
    return bad


def replay(rec):
    import numpy
    if rec['call'] == 'reach':
        return _replay_reach(rec)
    inp = rec['inputs']
    if 'Bernoulli' in rec['clause']:
        return _replay_bernoulli(inp)
    try:
        out = _call(inp)
    except rngscript.ScriptError as ex:
        return (False, 'scripted replay impossible: %s' % ex)
    except Exception as ex:
        return (True, '%s raised %s: %s' % (inp['which'], type(ex).__name__, ex))
    bad = _concrete_bad(inp, out)
    natural = None
    if bad:
        for sd in range(200):
            try:
                if _concrete_bad(inp, _call(inp, scripted=False, seed=sd)):
                    natural = sd
                    break
            except Exception:
                natural = sd
                break
    W = out[0] if inp['ordering'] else out
    return (len(bad) > 0, '%s(p=%s, k=%s, w_min=%s, w_max=%s, return_ordering=%s) with the generator outcomes chosen by the solver -> W=%s%s: %s%s' % (
        'dag_avg_deg' if inp['which'] == 'avg' else 'dag_full', inp['p'], inp.get('k'), inp['w_min'], inp['w_max'], inp['ordering'],
        numpy.asarray(W).round(4).tolist(), (' ordering=%s' % [int(x) for x in out[1]]) if inp['ordering'] else '',
        '; '.join(bad) or 'valid', (' [also with the real generator at random_state=%d]' % natural) if natural is not None else ''))


def _replay_bernoulli(inp):
    """the inclusion law clause failed: measure edge frequencies of the real generator (6-sigma test per pair and for the total)"""
    import numpy
    s = real_sempler()
    p = int(inp['p'])
    out = []
    for k in (float(p - 1) / 2, 1.0):
        prob = k / (p - 1)
        N = 4000
        cnt = numpy.zeros((p, p))
        for sd in range(N):
            W = s.generators.dag_avg_deg(p, k, 1, 2, random_state=sd)
            A = (W != 0)
            cnt += (A | A.T)
        m = p * (p - 1) // 2
        tot = cnt[numpy.triu_indices(p, 1)].sum()
        z = (tot - N * m * prob) / max((N * m * prob * (1 - prob)) ** 0.5, 1e-9)
        out.append((k, prob, tot / (N * m), z))
        if abs(z) > 6:
            return (True, 'dag_avg_deg(p=%d, k=%s): edge frequency %.4f over %d real samples, expected k/(p-1) = %.4f (z = %.1f)' % (p, k, tot / (N * m), N, prob, z))
        # independence: the number of edges must have the Binomial(m, prob) variance
        if m >= 2 and 0 < prob < 1:
            ne = []
            for sd in range(N):
                W = s.generators.dag_avg_deg(p, k, 1, 2, random_state=sd)
                ne.append(int((W != 0).sum()))
            var = float(numpy.var(ne))
            expv = m * prob * (1 - prob)
            # variance of the sample variance of a binomial is about 2 expv^2 / N (+ kurtosis term); 6 sigma with slack
            sdv = expv * (2.0 / N) ** 0.5 * 1.5 + 1e-9
            if abs(var - expv) > 6 * sdv:
                return (True, 'dag_avg_deg(p=%d, k=%s): the edge count has variance %.4f over %d real samples, Binomial(%d, %.3f) has %.4f: inclusions are not independent' % (p, k, var, N, m, prob, expv))
    return (False, 'edge frequencies agree with k/(p-1): %s' % out)


def _replay_reach(rec):
    s = real_sempler()
    name = rec['clause'][len('reach:'):]
    ob = rec['obligation']           # e.g. avg_p3_ord
    which, pp = ob.split('_')[0], int(ob.split('_')[1][1:])
    hit = False
    for sd in range(400):
        if which == 'avg':
            out = s.generators.dag_avg_deg(pp, float(pp - 1), 1, 2, return_ordering=True, random_state=sd)
        else:
            out = s.generators.dag_full(pp, 1, 2, return_ordering=True, random_state=sd)
        W, o = out
        if name.startswith('node'):
            v, q = int(name.split()[1]), int(name.split()[-1])
            hit |= (int(o[q]) == v)
        elif 'higher to a lower' in name:
            hit |= any(W[i, j] != 0 for i in range(pp) for j in range(i))
        else:
            hit |= any(W[i, j] != 0 for i in range(pp) for j in range(i + 1, pp))
        if hit:
            break
    return (not hit, '%s p=%d: "%s" %s over 400 seeds of the real generator' % (which, pp, name, 'occurred' if hit else 'NEVER occurred'))


def obligations(tier):
    ob = []
    ps_avg = [2, 3, 4] if tier == 'quick' else [2, 3, 4, 5]
    ps_full = [0, 1, 2, 3, 4] if tier == 'quick' else [0, 1, 2, 3, 4, 5]
    for which, ps in (('avg', ps_avg), ('full', ps_full)):
        for p in ps:
            for ro in (True, False):
                reach = []
                if ro:
                    reach = ['node %d can take position %d' % (v, q) for v in range(p) for q in range(p)]
                elif p >= 2:
                    reach = ['edges from a higher to a lower index occur', 'edges from a lower to a higher index occur']
                ob.append(Obligation('%s_p%d_%s' % (which, p, 'ord' if ro else 'noord'), _mk_h(which), [dict(p=p, ordering=ro)],
                                     "%s on %d nodes, return_ordering=%s: symbolic k / weight range / seed, every permutation and every variate" % (
                                         'dag_avg_deg' if which == 'avg' else 'dag_full', p, ro),
                                     expect=('returned',), reach_expect=tuple(reach), weight=[1, 1, 2, 6, 24, 120][p] * (3 if which == 'avg' else 1),
                                     timeout_ms=120000))
    for which in ('avg', 'full'):
        ob.append(Obligation('%s_p3_after_other_call' % which, _mk_h(which), [dict(p=3, ordering=False, second_call=True)],
                             "%s on 3 nodes after an earlier call with the same p and other weights (no state carried between calls)" % which,
                             expect=('returned',), weight=20, timeout_ms=120000))
    return ob
