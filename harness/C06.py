"""C06 -- Population regression and MSE are the least-squares solution."""
import itertools
from fractions import Fraction
import symnp as np
from harness.common import visibly, Obligation, PathResult, real_sempler, unj, unj_float
from harness import C05
from harness import scm_inputs as SI
from harness import inputs as I
from oracles import graph as G
from oracles import scm

PID = 'C06'

META = dict(
    explanation="NormalDistribution.regress / mse are executed on a fully symbolic mean vector and symmetric covariance matrix "
                "(numpy.linalg.solve/inv = exact contract stub). Clauses (all polynomial, decided for every Sigma, mu at once): "
                "coefficients zero outside S; the normal equations Sigma_SS b = Sigma_Sy (zero covariance of the residual with "
                "every regressor); intercept = mu_y - b.mu (zero residual mean); mse = variance of that residual AND "
                "mse * det(Sigma_SS) = det(Sigma_(S+y)(S+y)) (Schur complement, independent characterisation); independence of "
                "the means; invariance under permutations of S; y in S gives b = e_y and mse = 0; monotonicity under added "
                "regressors for positive-definite Sigma. LGANM link: for every DAG pattern with symbolic weights, means, "
                "positive variances and every assignment of do / noise / shift interventions, regressing each variable on its "
                "(post-intervention) parents in the population distribution returns its incoming weights, noise mean and noise variance.",
    bounds=dict(quick="p <= 3: every target y and every ordered regressor list S (int / list / range / array / empty styles); p = 4 with |S| <= 2; "
                      "monotonicity p <= 3; LGANM link p <= 3 (25 patterns x 4^p intervention assignments, tuple parameters)",
                thorough="p = 4 all S; monotonicity p = 4 with |S| <= 1; LGANM link p = 4 with at most 2 intervened variables"),
    outside=["floating-point rounding; singular regressor blocks", "repeated regressors in S", "p > 4", "unsorted regressor lists of length >= 3 at p = 4 with non-zero covariances (explored with a diagonal covariance only)"],
    stubs=["numpy -> symnp", "numpy.linalg.solve / inv -> exact adjugate/determinant contract stub"],
    assumptions=["z3 sound on QF_NRA"],
)


def _style(S, style):
    if style == 'int' and len(S) == 1:
        return S[0]
    if style == 'array':
        return np.array(S, dtype=int) if S else np.array([], dtype=int)
    if style == 'range' and S == list(range(S[0], S[0] + len(S))) if S else False:
        return range(S[0], S[0] + len(S))
    return list(S)


def _det(M):
    from symnp.linalg import _minor_det
    n = len(M)
    idx = tuple(range(n))
    return _minor_det(M, idx, idx, {})


def h_regress(ctx):
    p, y, S, style = ctx.params['p'], ctx.params['y'], ctx.params['S'], ctx.params['style']
    e = ctx.eng
    nd, dist, mu, Sg = C05.sym_dist(ctx, p)
    cl = []
    sym = None
    try:
        coefs, intercept = dist.regress(y, _style(S, style))
        m = dist.mse(y, _style(S, style))
        outcome = 'returned'
        ok = hasattr(coefs, 'shape') and coefs.shape == (p,)
        cl.append(('coefficient vector has one entry per variable', ok))
        if ok:
            b = [coefs[k] for k in range(p)]
            for k in range(p):
                if k not in S:
                    cl.append(('coefficient %d outside S is zero' % k, b[k] == 0))
            for s_ in S:
                lhs = sum((Sg[s_][t] * b[t] for t in S), 0)
                cl.append(('normal equation for regressor %d (zero residual covariance)' % s_, lhs == Sg[s_][y], visibly(lhs, Sg[s_][y])))
            cl.append(('intercept makes the residual mean zero', intercept == mu[y] - sum((b[k] * mu[k] for k in range(p)), 0)))
            resvar = Sg[y][y] - 2 * sum((b[k] * Sg[k][y] for k in range(p)), 0) + \
                sum((b[k] * b[l] * Sg[k][l] for k in range(p) for l in range(p)), 0)
            cl.append(('mse is the variance of the residual', m == resvar, visibly(m, resvar)))
            if y in S:
                cl.append(('y in S: coefficient of y is 1', b[y] == 1))
                cl.append(('y in S: mse = 0', m == 0))
            else:
                dS = _det([[Sg[a][b_] for b_ in S] for a in S])
                J = list(S) + [y]
                dJ = _det([[Sg[a][b_] for b_ in J] for a in J])
                cl.append(('mse * det(Sigma_SS) = det(Sigma_(S+y))  (conditional variance)', m * dS == dJ))
                # non-negativity is a corollary: for positive-definite Sigma both determinants are
                # positive (Sylvester), hence mse = det(Sigma_(S+y)) / det(Sigma_SS) > 0.  It is also
                # decided directly by z3 in the `monotone` obligation for the small sizes.
            # independence of the means: same call on a distribution with other means
            mu2 = [e.real('mm_%d' % i) for i in range(p)]
            d2 = nd.NormalDistribution(np.array(mu2), np.array(Sg))
            cl.append(('mse does not depend on the means', d2.mse(y, list(S)) == m))
            # the returned coefficient array belongs to the caller: a second call returns another array
            c_again, i_again = dist.regress(y, _style(S, style))
            cl.append(('a second regress() call returns a fresh coefficient array (not storage kept by the object)',
                       not np.shares_memory(c_again, coefs)))
            # order invariance
            for perm in (itertools.permutations(S) if ctx.params.get('perms', True) else ()):
                if list(perm) != list(S):
                    cl.append(('mse invariant to the order of S', dist.mse(y, list(perm)) == m))
                    c2, i2 = dist.regress(y, list(perm))
                    cl.append(('regress invariant to the order of S', G.And([G.T(c2[k] == b[k]) for k in range(p)] + [G.T(i2 == intercept)])))
        sym = ['ok', coefs.tolist() if ok else None, intercept, m]
    except np.linalg.LinAlgError:
        outcome = 'singular regressor block (outside the statement)'
        sym = ['LinAlgError']
    except ZeroDivisionError:
        outcome = 'singular regressor block (outside the statement)'
        sym = ['LinAlgError']
    except Exception as ex:
        outcome = 'raised ' + type(ex).__name__
        cl.append(('regress / mse must not raise (%s: %s)' % (type(ex).__name__, ex), False))
        sym = [type(ex).__name__]
    return PathResult(outcome, cl, inputs=dict(mu=mu, S=Sg, y=y, Xs=S, style=style), call='regress',
                      info=dict(y=y, S=S, style=style), diff=(None if outcome.startswith('singular') else (_real_regress, sym, dict(nice=True, tol=1e-6))))


def _np_xs(S, style):
    import numpy
    if style == 'int' and len(S) == 1:
        return S[0]
    if style == 'array':
        return numpy.array(S, dtype=int)
    if style == 'range' and S and S == list(range(S[0], S[0] + len(S))):
        return range(S[0], S[0] + len(S))
    return list(S)


def _real_regress(inp):
    import numpy
    d = C05._np_dist(inp)
    try:
        c, i = d.regress(inp['y'], _np_xs(inp['Xs'], inp['style']))
        m = d.mse(inp['y'], _np_xs(inp['Xs'], inp['style']))
        return ['ok', c.tolist(), float(i), float(m)]
    except numpy.linalg.LinAlgError:
        return ['LinAlgError']
    except Exception as ex:
        return [type(ex).__name__]


def h_monotone(ctx):
    """mse(S + k) <= mse(S) for positive-definite Sigma (all principal minors of the block positive)"""
    p, y, S, k = ctx.params['p'], ctx.params['y'], ctx.params['S'], ctx.params['k']
    e = ctx.eng
    nd, dist, mu, Sg = C05.sym_dist(ctx, p)
    J = list(S) + [k, y]
    # positive definiteness of the block: every principal minor positive
    for r in range(1, len(J) + 1):
        for sub in itertools.combinations(J, r):
            e.assume(_det([[Sg[a][b] for b in sub] for a in sub]) > 0)
    cl = []
    try:
        m1 = dist.mse(y, list(S))
        m2 = dist.mse(y, list(S) + [k])
        cl.append(('mse non-increasing when a regressor is added', m2 <= m1))
        cl.append(('mse non-negative', m2 >= 0))
        outcome = 'returned'
    except (np.linalg.LinAlgError, ZeroDivisionError):
        outcome = 'singular'
    return PathResult(outcome, cl, inputs=dict(mu=mu, S=Sg, y=y, Xs=S, k=k), call='monotone', info=dict(y=y, S=S, k=k))


def h_lganm(ctx):
    p = ctx.params['p']
    e = ctx.eng
    lg = ctx.mod('sempler.lganm')
    rows, pat, means, variances = SI.sym_model(ctx, 'float', var_positive=True)
    do, noise, shift, descr = SI.sym_interventions(ctx, p, kinds_allowed=ctx.params.get('kinds', ['none', 'do', 'noise', 'shift']),
                                                   scalar_params=False, var_positive=True, max_targets=ctx.params.get('max_targets'))
    Wp, mu_, D_ = scm.intervened(rows, means, variances, do, noise, shift)
    cl = []
    try:
        model = lg.LGANM(np.array(rows, dtype=float), np.array(means), np.array(variances))
        dist = model.sample(population=True, do_interventions=do, noise_interventions=noise, shift_interventions=shift)
        for j in range(p):
            pa = [i for i in range(p) if not (isinstance(Wp[i][j], (int, float)) and Wp[i][j] == 0)]
            coefs, intercept = dist.regress(j, pa)
            m = dist.mse(j, pa)
            for i in range(p):
                cl.append(('regressing X%d on its parents returns the incoming weight from X%d' % (j, i), coefs[i] == Wp[i][j]))
            cl.append(('... and the noise mean of X%d as intercept' % j, intercept == mu_[j]))
            cl.append(('... and the noise variance of X%d as MSE' % j, m == D_[j]))
        outcome = 'returned'
    except Exception as ex:
        outcome = 'raised ' + type(ex).__name__
        cl.append(('must not raise (%s: %s)' % (type(ex).__name__, ex), False))
    return PathResult(outcome, cl, inputs=dict(W=rows, means=means, variances=variances, do=do, noise=noise, shift=shift),
                      call='lganm', info=dict(pattern=[list(r) for r in pat], interventions=descr))


def _lists(p, y, maxs=None):
    out = []
    others = list(range(p))
    for n in range(0, p + 1):
        if maxs is not None and n > maxs:
            continue
        for S in itertools.permutations(others, n):
            out.append(list(S))
    return out


def obligations(tier):
    ob = []
    cubes = []
    for p in (1, 2, 3):
        for y in range(p):
            for S in _lists(p, y):
                if list(S) != sorted(S) and len(S) > 2:
                    continue
                styles = ['list']
                if len(S) == 1:
                    styles += ['int', 'array']
                if len(S) >= 2 and S == list(range(S[0], S[0] + len(S))):
                    styles += ['range', 'array']
                for st in styles:
                    cubes.append(dict(p=p, y=y, S=S, style=st))
    ob.append(Obligation('regress_p123', h_regress, cubes, "regress / mse for every target and ordered regressor list, p <= 3", expect=('returned',), weight=3))
    c4 = []
    for y in range(4):
        for S in _lists(4, y, 2 if tier == 'quick' else None):
            if list(S) != sorted(S) and len(S) > 2:
                continue
            c4.append(dict(p=4, y=y, S=S, style='list'))
    ob.append(Obligation('regress_p4', h_regress, c4, "regress / mse, p = 4" + (" with |S| <= 2" if tier == 'quick' else ""),
                         expect=('returned',), weight=6, timeout_ms=120000))
    # unsorted regressor lists of length 3 at p = 3 (normal equations only; the all-permutations comparison is left to
    # the cubes above).  The same lists at p = 4 were tried (after seeded change C06_r6) and withdrawn: with a fully
    # symbolic 4 x 4 covariance the |S| = 4 queries end in solver timeouts (163 s wall, `unknown`); p = 4 is explored
    # with a diagonal covariance instead (regress_unsorted_p4_diag below), see DESIGN 11.5.
    uns = []
    for p in (3,):
        for y in range(p):
            for S in _lists(p, y):
                if len(S) > 2 and list(S) != sorted(S):
                    uns.append(dict(p=p, y=y, S=S, style='list', perms=False))
    unsd = []
    for y in range(4):
        for S in _lists(4, y):
            if len(S) > 2 and list(S) != sorted(S):
                unsd.append(dict(p=4, y=y, S=S, style='list', perms=False, diag=True))
    ob.append(Obligation('regress_unsorted_p4_diag', h_regress, unsd, "regress / mse on unsorted regressor lists of length 3 and 4, p = 4, "
                         "DIAGONAL covariance (symbolic variances, zero covariances)", expect=('returned',), weight=4, timeout_ms=120000))
    ob.append(Obligation('regress_unsorted', h_regress, uns, "regress / mse on unsorted regressor lists of length 3, p = 3", expect=('returned',), weight=6, timeout_ms=120000))
    mono = []
    for p in (2, 3) + ((4,) if tier == 'thorough' else ()):
        for y in range(p):
            rest = [i for i in range(p) if i != y]
            for n in range(0, len(rest)):
                if p == 4 and n > 1:
                    continue
                for S in itertools.combinations(rest, n):
                    for k in rest:
                        if k not in S:
                            mono.append(dict(p=p, y=y, S=list(S), k=k))
    ob.append(Obligation('monotone', h_monotone, mono, "mse non-increasing in the regressor set, positive-definite Sigma", expect=('returned',),
                         weight=8, timeout_ms=120000))
    for p in (1, 2, 3):
        ob.append(Obligation('lganm_p%d' % p, h_lganm, [dict(c, kinds=['none', 'do', 'noise', 'shift']) for c in I.dag_pair_cubes(p, 2 if p == 3 else 0)],
                             "LGANM link on every DAG pattern on %d nodes, every do/noise/shift assignment" % p, expect=('returned',), weight=p * 3))
    if tier == 'thorough':
        ob.append(Obligation('lganm_p4', h_lganm, [dict(c, kinds=['none', 'do', 'noise', 'shift'], max_targets=2) for c in I.dag_pair_cubes(4, 3)],
                             "LGANM link on every DAG pattern on 4 nodes, at most 2 intervened variables", expect=('returned',), weight=40, timeout_ms=120000))
    return ob


def replay(rec):
    inp = rec['inputs']
    call = rec['call']
    if call == 'regress':
        mu = [C05._fr(v) for v in inp['mu']]
        S = [[C05._fr(v) for v in r] for r in inp['S']]
        y, Xs = inp['y'], inp['Xs']
        r = _real_regress(inp)
        if r[0] == 'LinAlgError':
            return (False, 'singular')
        if r[0] != 'ok':
            return (True, 'regress/mse(%d, %s) raised %s' % (y, Xs, r[0]))
        # exact least squares
        p = len(mu)
        if Xs:
            Z = C05._solve_frac([[S[a][b] for b in Xs] for a in Xs], [[S[a][y]] for a in Xs])
            if Z is None:
                return (False, 'singular')
            b = [Fraction(0)] * p
            for k, s_ in enumerate(Xs):
                b[s_] = Z[k][0]
        else:
            b = [Fraction(0)] * p
        icpt = mu[y] - sum(b[k] * mu[k] for k in range(p))
        mse = S[y][y] - 2 * sum(b[k] * S[k][y] for k in range(p)) + sum(b[k] * b[l] * S[k][l] for k in range(p) for l in range(p))
        # the mse is compared on ITS OWN scale (a conditional variance of 4e-9 reported as 0 is wrong), exact zeros up to
        # rounding noise relative to the entries of Sigma
        scale = max([abs(float(v)) for row in S for v in row] + [1e-300])

        def close_mse(got, want):
            got, want = float(got), float(want)
            if want == 0:
                return abs(got) <= 1e-9 * scale
            return abs(got - want) <= 1e-6 * max(abs(got), abs(want))
        bad = any(not C05._close(r[1][k], b[k], 1e-6) for k in range(p)) or not C05._close(r[2], icpt, 1e-6) or not close_mse(r[3], mse)
        if not bad:
            import numpy
            d0 = C05._np_dist(inp)
            c1, _i1 = d0.regress(y, _np_xs(Xs, inp['style']))
            c1 += 7.0                  # the caller may do what it likes with the returned array
            c2, _i2 = d0.regress(y, _np_xs(Xs, inp['style']))
            if numpy.shares_memory(c1, c2) or any(not C05._close(c2[k], b[k], 1e-6) for k in range(p)) or not close_mse(d0.mse(y, _np_xs(Xs, inp['style'])), mse):
                bad = True
        if not bad:
            # order invariance / mean independence on the real code
            import numpy
            d = C05._np_dist(inp)
            for perm in itertools.permutations(Xs):
                if not close_mse(d.mse(y, list(perm)), mse):
                    bad = True
                c2, i2 = d.regress(y, list(perm))
                if any(not C05._close(c2[k], b[k], 1e-6) for k in range(p)) or not C05._close(i2, icpt, 1e-6):
                    bad = True
        return (bad, 'regress(%d, %s) on mu=%s Sigma=%s returned coefs %s intercept %s mse %s; exact least squares: %s, %s, %s'
                % (y, Xs, inp['mu'], inp['S'], r[1], r[2], r[3], [float(v) for v in b], float(icpt), float(mse)))
    if call == 'monotone':
        d = C05._np_dist(inp)
        m1 = d.mse(inp['y'], list(inp['Xs']))
        m2 = d.mse(inp['y'], list(inp['Xs']) + [inp['k']])
        return (m2 > m1 + 1e-9 or m2 < -1e-9, 'mse(S)=%s mse(S+k)=%s' % (m1, m2))
    if call == 'lganm':
        import numpy
        s = real_sempler()
        W = numpy.array(unj_float(inp['W']), dtype=float)
        means = numpy.array(unj_float(inp['means']), dtype=float)
        variances = numpy.array(unj_float(inp['variances']), dtype=float)
        do, noise, shift = SI.conc_interventions([inp['do'], inp['noise'], inp['shift']])
        Wp, mu_, D_ = scm.intervened(W.tolist(), means.tolist(), variances.tolist(), do, noise, shift)
        p = len(W)
        dist = s.LGANM(W, means, variances).sample(population=True, do_interventions=do, noise_interventions=noise, shift_interventions=shift)
        bad = []
        for j in range(p):
            pa = [i for i in range(p) if Wp[i][j] != 0]
            c, i0 = dist.regress(j, pa)
            m = dist.mse(j, pa)
            okm = (abs(m) <= 1e-9 * max(1e-300, float(abs(variances).max()))) if D_[j] == 0 else (abs(m - D_[j]) <= 1e-6 * max(abs(m), abs(D_[j])))
            if any(not C05._close(c[i], Wp[i][j], 1e-6) for i in range(p)) or not C05._close(i0, mu_[j], 1e-6) or not okm:
                bad.append('X%d: coefs %s intercept %s mse %s, expected %s, %s, %s' % (j, c.tolist(), i0, m, [Wp[i][j] for i in range(p)], mu_[j], D_[j]))
        return (len(bad) > 0, '; '.join(bad[:3]) or 'LGANM link satisfied')
    return (False, 'unknown call')
