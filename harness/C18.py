"""C18 -- add_edges / remove_edges change exactly the requested number of edges."""
import itertools
import symnp as np
from symx.core import SV
from harness.common import Obligation, PathResult, real_sempler, unj, unj_float
from harness import rngscript
from harness import inputs as I
from oracles import graph as G

PID = 'C18'

META = dict(
    explanation="utils.remove_edges and utils.add_edges (directed_edges, is_dag, topological_ordering) are executed on every DAG pattern with "
                "symbolic real weights (any sign) and as 0/1 int / bool matrices, with a SYMBOLIC requested count no_edges and a symbolic "
                "seed; default_rng is the contract stub: choice(edges, k, replace=False) = any k distinct positions, shuffle = any "
                "permutation (concretised lazily: the engine forks only on the prefix the greedy loop consumes). z3 decides per path: "
                "remove_edges returns a 0/1 subgraph of the input pattern with exactly no_edges fewer edges and raises ValueError iff "
                "no_edges > #edges; add_edges returns a 0/1 supergraph that is acyclic (closure formula), without two-cycles or "
                "self-loops, with exactly no_edges more edges, raises ValueError iff no_edges > p(p-1)/2 - #edges and never fails its "
                "final assertion (i.e. the greedy pass reaches the requested count for EVERY shuffle, up to the complete DAG); the "
                "caller's matrix is frozen (any write is reported); a second call with the same seed returns the same graph, also after calls on OTHER graphs of the same size (no state carried between calls).",
    bounds=dict(quick="p <= 3: all DAG patterns, no_edges in 0..(feasible maximum + 1), all choice / shuffle outcomes; p = 4: no_edges <= 1 or infeasible; dtypes float (symbolic real weights), int (0/1 and symbolic integer weights), bool",
                thorough="p = 4: remove_edges all counts; add_edges no_edges <= 2, the infeasible counts, and completing the DAG (all counts) for DAGs with at least 4 edges"),
    outside=["p > 4", "add_edges at p = 4 with 3..6 added edges on DAGs with fewer than 4 edges (too many shuffle prefixes)", "which edges are chosen (uniformity)"],
    stubs=["numpy -> symnp", "numpy.random.default_rng -> contract stub (choice without replacement, shuffle)"],
    assumptions=["z3 sound", "Generator.choice(replace=False) returns distinct positions; Generator.shuffle applies a permutation"],
)


def _input(ctx):
    dt = ctx.params['dtype']
    if dt == 'intw':
        # integer-typed WEIGHT matrix (symbolic non-zero integer weights of any sign and size)
        from harness import scm_inputs as SI
        rows, pat, _m, _v = SI.sym_model(ctx, 'int')
        A = np.array(rows, dtype=int)
        A.buf.frozen = True
        return rows, pat, A
    rows, pat = I.weighted_dag(ctx)
    p = len(pat)
    if dt == 'float':
        A = np.array(rows, dtype=float)
    elif dt == 'int':
        A = np.array([list(r) for r in pat], dtype=int)
    else:
        A = np.array([[bool(x) for x in r] for r in pat], dtype=bool)
    A.buf.frozen = True
    return rows if dt == 'float' else [list(r) for r in pat], pat, A


def _mk(which):
    def fn(ctx):
        e = ctx.eng
        ut = ctx.mod('sempler.utils')
        P = ctx.params
        p = P['p']
        rows, pat, A = _input(ctx)
        ne = sum(sum(r) for r in pat)
        feas = ne if which == 'remove' else p * (p - 1) // 2 - ne
        k = e.int('no_edges')
        e.assume(k >= 0)
        e.assume(k <= feas + 1)
        if P.get('max_k') is not None:
            e.assume(G.Z(G.Or(G.T(k <= P['max_k']), G.T(k > feas), (G.T(k >= 0) if (which == 'add' and ne >= P.get('full_from', 99)) else False))))
        seed = e.int('seed')
        e.assume(seed >= 0)
        f = ut.remove_edges if which == 'remove' else ut.add_edges
        cl = []
        sym = None
        try:
            R = f(A, k, random_state=seed)
            outcome = 'returned'
            cl.append(('no ValueError only when the request is feasible', G.T(k <= feas)))
            ok = isinstance(R, np.ndarray) and R.shape == (p, p)
            cl.append(('a p x p matrix is returned', ok))
            if ok:
                r = [[R[i, j] for j in range(p)] for i in range(p)]
                cl.append(('entries are 0 or 1', G.And([G.Or(G.T(r[i][j] == 0), G.T(r[i][j] == 1)) for i in range(p) for j in range(p)])))
                nz = [[G.T(r[i][j] != 0) for j in range(p)] for i in range(p)]
                cnt = 0
                for i in range(p):
                    for j in range(p):
                        cnt = cnt + r[i][j]
                if which == 'remove':
                    cl.append(('the result is a subgraph of the input', G.And([G.Implies(nz[i][j], bool(pat[i][j])) for i in range(p) for j in range(p)])))
                    cl.append(('exactly no_edges edges fewer', G.T(cnt == ne - k)))
                else:
                    cl.append(('the result is a supergraph of the input', G.And([nz[i][j] for i in range(p) for j in range(p) if pat[i][j]])))
                    cl.append(('exactly no_edges edges more', G.T(cnt == ne + k)))
                    cl.append(('the result is acyclic', G.acyclic(nz)))
                    cl.append(('no two-cycle, no self-loop', G.And([G.Not(G.And(nz[i][j], nz[j][i])) for i in range(p) for j in range(i + 1, p)] + [G.Not(nz[i][i]) for i in range(p)])))
                cl.append(('the result does not alias the input', R.buf is not A.buf))
                # deterministic in random_state
                R2 = f(A, k, random_state=seed)
                cl.append(('a second call with the same random_state returns the same graph',
                           G.And([G.T(R2[i, j] == r[i][j]) for i in range(p) for j in range(p)]) if isinstance(R2, np.ndarray) and R2.shape == (p, p) else False))
                sym = ['ok', R.tolist()]
        except ValueError as ex:
            outcome = 'raised ValueError'
            cl.append(('ValueError exactly when more edges are requested than %s' % ('exist' if which == 'remove' else 'can be added (p(p-1)/2 - #edges)'), G.T(k > feas)))
            sym = ['ValueError']
        except AssertionError as ex:
            outcome = 'raised AssertionError'
            cl.append(('the final count assertion must never fail', False))
            sym = ['AssertionError']
        except np.FrozenWrite as ex:
            outcome = 'wrote to the input'
            cl.append(('the input matrix is not modified', False))
            sym = ['mutated']
        except Exception as ex:
            outcome = 'raised ' + type(ex).__name__
            cl.append(('only ValueError may be raised (%s: %s)' % (type(ex).__name__, str(ex)[:80]), False))
            sym = [type(ex).__name__]
        # the script of the FIRST call only (the second call repeats it)
        log = np.random.LOG
        cut = len(log)
        seen = 0
        for i, rcd in enumerate(log):
            if rcd['op'] == 'default_rng':
                seen += 1
                if seen == 2:
                    cut = i
                    break
        inputs = dict(which=which, A=rows, dtype=P['dtype'], no_edges=k, seed=seed, rng=rngscript.script(log[:cut]))
        return PathResult(outcome, cl, inputs=inputs, call='edges', info=dict(which=which, pattern=[list(r) for r in pat], dtype=P['dtype']),
                          diff=(_real, sym, dict(nice=True)))
    return fn


def h_history(which):
    """results must not depend on earlier calls with OTHER graphs of the same size: r0 = f(A, k, s); then calls on the
    empty and on a complete DAG of that size; then f(A, k, s) again must return the same graph"""
    def fn(ctx):
        e = ctx.eng
        ut = ctx.mod('sempler.utils')
        p = ctx.params['p']
        rows, pat, A = _input(ctx)
        ne = sum(sum(r) for r in pat)
        feas = ne if which == 'remove' else p * (p - 1) // 2 - ne
        k = e.int('no_edges')
        e.assume(k >= 0)
        e.assume(k <= feas)
        seed = e.int('seed')
        e.assume(seed >= 0)
        f = ut.remove_edges if which == 'remove' else ut.add_edges
        cl = []
        try:
            r0 = f(A, k, random_state=seed)
            empty = np.zeros((p, p))
            full = np.triu(np.ones((p, p)), k=1)
            for other, kk in ((full, 0), (empty, 0), (full, 1 if which == 'remove' and p > 1 else 0)):
                try:
                    f(other, kk, random_state=seed)
                except ValueError:
                    pass
            r1 = f(A, k, random_state=seed)
            cl.append(('the same seeded call after calls on OTHER graphs of the same size returns the same graph',
                       G.And([G.T(r0[i, j] == r1[i, j]) for i in range(p) for j in range(p)]) if r0.shape == r1.shape else False))
            outcome = 'returned'
        except Exception as ex:
            outcome = 'raised ' + type(ex).__name__
            cl.append(('feasible requests must not raise, whatever was called before (%s: %s)' % (type(ex).__name__, str(ex)[:80]), False))
        return PathResult(outcome, cl, inputs=dict(which=which, A=rows, dtype=ctx.params['dtype'], no_edges=k, seed=seed, rng=[]), call='history',
                          info=dict(which=which, pattern=[list(r) for r in pat]))
    return fn


def _realA(inp):
    import numpy
    dt = inp['dtype']
    if dt == 'float':
        return numpy.array(unj_float(inp['A']), dtype=float)
    if dt == 'intw':
        return numpy.array([[int(unj(x)) for x in r] for r in inp['A']], dtype=int)
    return numpy.array(inp['A'], dtype=int if dt == 'int' else bool)


def _real(inp, scripted=True, seed=None):
    s = real_sempler()
    A = _realA(inp)
    A0 = A.copy()
    f = s.utils.remove_edges if inp['which'] == 'remove' else s.utils.add_edges
    k = int(unj(inp['no_edges']))
    sd = int(unj(inp['seed'])) if seed is None else seed
    try:
        if scripted:
            with rngscript.scripted(inp.get('rng')):
                R = f(A, k, random_state=sd)
        else:
            R = f(A, k, random_state=sd)
        out = ['ok', R.tolist()]
    except rngscript.ScriptError:
        raise
    except Exception as ex:
        out = [type(ex).__name__]
    import numpy
    if not numpy.array_equal(A, A0):
        out = ['mutated']
    return out


def _concrete_bad(inp, out):
    import numpy
    A = _realA(inp)
    p = len(A)
    pat = (A != 0)
    ne = int(pat.sum())
    k = int(unj(inp['no_edges']))
    rem = inp['which'] == 'remove'
    feas = ne if rem else p * (p - 1) // 2 - ne
    if out[0] == 'ValueError':
        return [] if k > feas else ['ValueError although the request is feasible (%d <= %d)' % (k, feas)]
    if out[0] != 'ok':
        return ['%s' % out[0]]
    if k > feas:
        return ['no ValueError although %d > %d' % (k, feas)]
    R = numpy.array(out[1])
    bad = []
    if R.shape != (p, p):
        return ['shape %s' % (R.shape,)]
    if not numpy.isin(R, [0, 1]).all():
        bad.append('entries other than 0/1')
    rz = R != 0
    if rem:
        if (rz & ~pat).any():
            bad.append('not a subgraph')
        if int(rz.sum()) != ne - k:
            bad.append('%d edges instead of %d' % (int(rz.sum()), ne - k))
    else:
        if (pat & ~rz).any():
            bad.append('not a supergraph')
        if int(rz.sum()) != ne + k:
            bad.append('%d edges instead of %d' % (int(rz.sum()), ne + k))
        if not G.c_is_acyclic(rz.tolist()):
            bad.append('the result has a cycle')
        if (rz & rz.T).any():
            bad.append('two-cycle or self-loop')
    return bad


def _replay_history(inp):
    import numpy
    s = real_sempler()
    A = _realA(inp)
    p = len(A)
    f = s.utils.remove_edges if inp['which'] == 'remove' else s.utils.add_edges
    k = int(unj(inp['no_edges']))
    bad = []
    for sd in (int(unj(inp['seed'])) % (2 ** 32), 0, 1, 42):
        try:
            r0 = f(A.copy(), k, random_state=sd)
            for other, kk in ((numpy.triu(numpy.ones((p, p)), 1), 0), (numpy.zeros((p, p)), 0)):
                try:
                    f(other, kk, random_state=sd)
                except ValueError:
                    pass
            r1 = f(A.copy(), k, random_state=sd)
            if not numpy.array_equal(r0, r1):
                bad.append('random_state=%d: %s before, %s after calls on other graphs' % (sd, r0.tolist(), r1.tolist()))
        except Exception as ex:
            bad.append('random_state=%d: raised %s' % (sd, type(ex).__name__))
    return (len(bad) > 0, '%s_edges(A=%s, no_edges=%d) repeated after calls on other graphs of the same size: %s' % (inp['which'], A.tolist(), k, '; '.join(bad[:2]) or 'same result'))


def replay(rec):
    inp = rec['inputs']
    if rec['call'] == 'history':
        return _replay_history(inp)
    try:
        out = _real(inp)
    except rngscript.ScriptError as ex:
        return (False, 'scripted replay impossible: %s' % ex)
    bad = _concrete_bad(inp, out)
    if not bad and 'second call' in rec['clause']:
        a, b = _real(inp, scripted=False), _real(inp, scripted=False)
        if a != b:
            bad.append('two calls with the same random_state differ')
    natural = None
    if bad:
        for sd in range(200):
            try:
                if _concrete_bad(inp, _real(inp, scripted=False, seed=sd)):
                    natural = sd
                    break
            except Exception:
                break
    return (len(bad) > 0, '%s_edges(A=%s (%s), no_edges=%s) with the generator outcomes chosen by the solver -> %s: %s%s' % (
        inp['which'], _realA(inp).tolist(), inp['dtype'], inp['no_edges'], out, '; '.join(bad) or 'as specified',
        (' [also with the real generator at random_state=%d]' % natural) if natural is not None else ''))


def obligations(tier):
    ob = []
    for which in ('remove', 'add'):
        for p in (1, 2, 3):
            cubes = [dict(c, dtype=dt) for dt in ('float', 'int', 'bool', 'intw') for c in I.dag_pair_cubes(p, 2 if p == 3 else 0)]
            ob.append(Obligation('%s_p%d' % (which, p), _mk(which), cubes,
                                 "%s_edges on every DAG pattern on %d nodes (symbolic weights / 0-1 int / bool), symbolic no_edges and seed, every generator outcome" % (which, p),
                                 expect=('returned', 'raised ValueError'), weight=p * (20 if which == 'add' else 5)))
        ob.append(Obligation('%s_history_p3' % which, h_history(which), [dict(c, dtype='float') for c in I.dag_pair_cubes(3, 2)],
                             "%s_edges: the same seeded call before and after calls on other graphs of the same size" % which,
                             expect=('returned',), weight=30))
        if tier == 'quick':
            c4 = [dict(c, dtype='float', max_k=1) for c in I.dag_pair_cubes(4, 3)]
            ob.append(Obligation('%s_p4' % which, _mk(which), c4, "%s_edges on every DAG pattern on 4 nodes, no_edges <= 1 or infeasible" % which,
                                 expect=('returned', 'raised ValueError'), weight=50))
        else:
            if which == 'remove':
                c4 = [dict(c, dtype='float') for c in I.dag_pair_cubes(4, 3)]
                d = "remove_edges on every DAG pattern on 4 nodes, all counts"
            else:
                c4 = [dict(c, dtype='float', max_k=2, full_from=4) for c in I.dag_pair_cubes(4, 3)]
                d = "add_edges on every DAG pattern on 4 nodes: no_edges <= 2 or infeasible; all counts for DAGs with >= 4 edges"
            ob.append(Obligation('%s_p4' % which, _mk(which), c4, d, expect=('returned', 'raised ValueError'), weight=500, timeout_ms=120000))
    return ob
