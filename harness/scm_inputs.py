"""symbolic linear-Gaussian SCMs and intervention assignments (shared by C01, C04, C06)"""
import symnp as np
from harness import inputs as I

KINDS = ['none', 'do', 'noise', 'shift', 'do+noise', 'do+shift', 'noise+shift', 'do+noise+shift']


def sym_model(ctx, dtype='float', var_positive=False, name=''):
    """weighted DAG pattern + symbolic means / variances.  dtype 'int': integer-typed arrays
    (symbolic Ints).  returns (rows, pat, means, variances)"""
    e = ctx.eng
    p = ctx.params['p']
    if dtype == 'float':
        rows, pat = I.weighted_dag(ctx, name='w' + name)
        mk = e.real
    else:
        # integer weights: decide the pattern on Int atoms
        from oracles import graph as G
        sym = [[e.int('wi%s_%d_%d' % (name, i, j)) if i != j else 0 for j in range(p)] for i in range(p)]
        nz = [[G.T(sym[i][j] != 0) if i != j else False for j in range(p)] for i in range(p)]
        e.assume(G.Z(G.acyclic(nz)))
        I._apply_fix(e, sym, ctx.params)
        e._ensure_model()
        rows = [[0] * p for _ in range(p)]
        pat = [[0] * p for _ in range(p)]
        for i in range(p):
            for j in range(p):
                if i != j and bool(sym[i][j] != 0):
                    rows[i][j] = sym[i][j]
                    pat[i][j] = 1
        pat = tuple(tuple(r) for r in pat)
        mk = e.int
    means = [mk('mean%s_%d' % (name, i)) for i in range(p)]
    variances = [mk('var%s_%d' % (name, i)) for i in range(p)]
    for v in variances:
        e.assume(v > 0 if var_positive else v >= 0)
    return rows, pat, means, variances


def sym_interventions(ctx, p, kinds_allowed=None, scalar_params=True, var_positive=False, max_targets=None):
    """per variable: a symbolic choice of intervention kind (forked), with tuple (m, v) or scalar
    parameters (also forked).  returns (do, noise, shift dicts, description list)"""
    e = ctx.eng
    allowed = kinds_allowed or KINDS
    do, noise, shift = {}, {}, {}
    descr = []
    ntarg = 0
    for j in range(p):
        c = e.int('kind_%d' % j)
        e.assume(c >= 0)
        e.assume(c < len(allowed))
        k = allowed[int(c)]
        if k != 'none':
            ntarg += 1
            if max_targets is not None and ntarg > max_targets:
                from symx.core import PathInfeasible
                raise PathInfeasible()
        d = dict(var=j, kind=k)
        for part, dic in (('do', do), ('noise', noise), ('shift', shift)):
            if part in k.split('+'):
                m = e.real('%s_m_%d' % (part, j))
                if scalar_params:
                    s = e.int('%s_scalar_%d' % (part, j))
                    e.assume(s >= 0)
                    e.assume(s <= 1)
                    is_scalar = bool(s == 1)
                else:
                    is_scalar = False
                if is_scalar:
                    dic[j] = m
                    d[part] = 'scalar'
                else:
                    v = e.real('%s_v_%d' % (part, j))
                    e.assume(v > 0 if var_positive else v >= 0)
                    dic[j] = (m, v)
                    d[part] = 'tuple'
        descr.append(d)
    if ctx.params.get('dict_order') == 'desc':
        # the caller may build its dictionaries in any order: insertion order descending
        do, noise, shift = (dict(reversed(list(x.items()))) for x in (do, noise, shift))
    return do, noise, shift, descr


def conc_interventions(conc):
    """concretised (JSON) intervention dicts -> python dicts for the real library"""
    from harness.common import unj
    out = []
    for dic in conc:
        r = {}
        for k, v in dic.items():
            if isinstance(v, list):
                r[int(k)] = (float(unj(v[0])), float(unj(v[1])))
            else:
                r[int(k)] = float(unj(v))
        out.append(r)
    return out
