"""C13 -- Seeded calls are reproducible regardless of history."""
import itertools
from fractions import Fraction
import symnp as np
from symx.core import SV, SB
from harness.common import Obligation, PathResult, real_sempler, unj, unj_float
from harness import inputs as I
from oracles import graph as G

PID = 'C13'

META = dict(
    explanation="For every API that accepts random_state - LGANM(...) with (low, high) ranges, LGANM.sample (also on a model that was itself constructed with a seed), NormalDistribution.sample, "
                "ANM.sample (library noise: normal / uniform / laplace, with do-, shift- and noise-interventions), dag_avg_deg, dag_full, "
                "intervention_targets, split_data, add_edges, remove_edges - the same call is executed TWICE inside one path with a "
                "symbolic seed s >= 0 (0 is a value the solver may pick; passed as a Python int and, for every API, also as a numpy integer scalar) and symbolic arguments: the first from an arbitrary state G0 of "
                "numpy's global generator, the second after the global generator has been put into another arbitrary, unrelated state "
                "(an uninterpreted constant: this is 'any interleaving of other sampling / reseeding'), with a battery of OTHER library calls in between (utilities on other graphs of the same size, another model, draws from and reseeding of the global generator) so that state carried from call to call inside the library is seen. numpy's generators are contract "
                "stubs built from uninterpreted functions of (state, draw number, index), so 'bit-identical' is term equality decided by "
                "z3 (QF_UF + arithmetic): both calls must raise alike or return the same shape with element-wise equal terms. "
                "Non-degeneracy: for two consecutive UNSEEDED calls the query 'some element differs' must be satisfiable.",
    bounds=dict(quick="p <= 3 (all DAG patterns, symbolic weights) for LGANM; NormalDistribution p = 2; ANM p <= 2 all intervention kinds per variable and p = 3 with at most 1 intervened variable; n in {1,2}; generators p = 3; intervention_targets p = 3, K <= 2; split_data n = 3, 2 folds; add/remove_edges p = 3",
                thorough="ANM p = 3 all intervention assignments, n = 2; generators p = 4"),
    outside=["numpy's own determinism for a given seed (trusted)", "SeedSequence / Generator objects as random_state", "hash-order effects", "user-supplied noise callables"],
    stubs=["numpy -> symnp", "numpy.random (global stream, default_rng) -> contract stubs over uninterpreted functions of (state, draw, index)",
           "numpy.linalg.inv -> exact contract stub"],
    assumptions=["z3 sound", "np.random.seed(s) / default_rng(s) make the stream a function of s alone"],
)


def _flat(x):
    """(signature, list of scalars) of a result"""
    if isinstance(x, np.ndarray):
        return ('arr', x.shape), x._flat()
    if isinstance(x, (list, tuple)):
        sigs, vals = [], []
        for y in x:
            s, v = _flat(y)
            sigs.append(s)
            vals.extend(v)
        return (type(x).__name__, tuple(sigs)), vals
    return ('scalar',), [x]


def _eq(a, b):
    if isinstance(a, (SV, SB)) or isinstance(b, (SV, SB)):
        return G.T(a == b)
    return a == b


def _ne(a, b):
    if isinstance(a, (SV, SB)) or isinstance(b, (SV, SB)):
        return G.T(a != b)
    return a != b


def _run(call, sd):
    try:
        return ('ok',) + _flat(call(sd))
    except np.FrozenWrite:
        raise
    except Exception as ex:
        return ('raised ' + type(ex).__name__, None, [])


def _battery(ctx, size=3):
    """other library / numpy calls made between the two seeded calls (none of them forks): seeded and unseeded
    utilities on OTHER graphs, draws from and reseeding of the global generator, another model"""
    ut = ctx.mod('sempler.utils')
    nzm = ctx.mod('sempler.noise')
    lg = ctx.mod('sempler.lganm')
    full = np.triu(np.ones((size, size)), k=1)
    empty = np.zeros((size, size))
    for f, A, k in ((ut.add_edges, full, 0), (ut.remove_edges, empty, 0), (ut.add_edges, full, 0)):
        try:
            f(A, k, random_state=7)
        except ValueError:
            pass
    try:
        ut.split_data([np.zeros((1, 2))], [1.0], random_state=3)
    except ValueError:
        pass
    np.random.seed(11)
    nzm.normal(0, 1)(2)
    lg.LGANM(np.zeros((2, 2)), (0, 1), (1, 2), random_state=5)
    lg.LGANM(np.zeros((2, 2)), np.zeros(2), np.ones(2)).sample(population=True)


def _pair(ctx, api, call, inputs, info, size=3):
    e = ctx.eng
    mode = ctx.params.get('mode', 'both')
    seed = e.int('seed')
    e.assume(seed >= 0)
    e.assume(seed < 2 ** 32)
    cl = []
    outcome = 'returned'
    if ctx.params.get('seedtype') == 'npint':
        seed_sym, seed = seed, np.npinteger(seed)     # the caller passes a numpy integer scalar as random_state
    else:
        seed_sym = seed
    if mode in ('both', 'seeded'):
        a = _run(call, seed)
        _battery(ctx, size)                           # other library calls in between (state carried between calls?)
        np.random.set_global_state('Gother')          # and anything may have happened to the global generator
        b = _run(call, seed)
        cl.append(('both seeded calls behave alike (%s / %s)' % (a[0], b[0]), a[0] == b[0]))
        if a[0] == b[0] == 'ok':
            cl.append(('same shape', a[1] == b[1]))
            if a[1] == b[1]:
                cl.append(('seeded call is a function of (arguments, seed) alone: element-wise identical from any generator state',
                           G.And([_eq(x, y) for x, y in zip(a[2], b[2])])))
        outcome = 'returned' if a[0] == 'ok' else a[0]
    # unseeded calls are not degenerate
    reach = []
    if mode in ('both', 'unseeded'):
        np.random.set_global_state('Gthird')
        c = _run(call, None)
        d = _run(call, None)
        if c[0] == d[0] == 'ok' and c[1] == d[1] and c[2]:
            reach.append(('consecutive unseeded calls can differ', G.Z(G.Or([_ne(x, y) for x, y in zip(c[2], d[2])]))))
    inputs = dict(inputs, api=api, seed=seed_sym, seedtype=ctx.params.get('seedtype', 'int'))
    return PathResult(outcome, cl, inputs=inputs, call=api, info=info, reach=reach)


# ---- the APIs ---------------------------------------------------------------------------------

def h_lganm_init(ctx):
    e = ctx.eng
    lg = ctx.mod('sempler.lganm')
    rows, pat = I.weighted_dag(ctx)
    lo1, hi1, lo2, hi2 = e.real('mlo'), e.real('mhi'), e.real('vlo'), e.real('vhi')
    e.assume(lo1 < hi1)
    e.assume(lo2 < hi2)
    e.assume(lo2 >= 0)

    def call(sd):
        m = lg.LGANM(np.array(rows, dtype=float), (lo1, hi1), (lo2, hi2), random_state=sd)
        return [m.means, m.variances]
    return _pair(ctx, 'lganm_init', call, dict(W=rows, mlo=lo1, mhi=hi1, vlo=lo2, vhi=hi2), dict(pattern=[list(r) for r in pat]))


def h_lganm_sample(ctx):
    e = ctx.eng
    lg = ctx.mod('sempler.lganm')
    p, n = ctx.params['p'], ctx.params['n']
    rows, pat = I.weighted_dag(ctx)
    means = [e.real('mean_%d' % i) for i in range(p)]
    variances = [e.real('var_%d' % i) for i in range(p)]
    for v in variances:
        e.assume(v > 0)
    t = e.int('target')
    e.assume(t >= 0)
    e.assume(t <= p)            # p = no intervention
    ti = int(t)
    dm, dv = e.real('do_m'), e.real('do_v')
    e.assume(dv >= 0)
    do = {ti: (dm, dv)} if ti < p else None
    model = lg.LGANM(np.array(rows, dtype=float), np.array(means, dtype=float), np.array(variances, dtype=float))

    def call(sd):
        return model.sample(n, do_interventions=do, random_state=sd)
    return _pair(ctx, 'lganm_sample', call, dict(W=rows, means=means, variances=variances, target=ti, do_m=dm, do_v=dv, n=n),
                 dict(pattern=[list(r) for r in pat], target=ti))


def h_lganm_seeded_model(ctx):
    """a model CONSTRUCTED with a seed: its later unseeded sample() calls must still differ, and seeded ones be reproducible"""
    e = ctx.eng
    lg = ctx.mod('sempler.lganm')
    p, n = ctx.params['p'], ctx.params['n']
    rows, pat = I.weighted_dag(ctx)
    cseed = e.int('constructor_seed')
    e.assume(cseed >= 0)
    e.assume(cseed < 2 ** 32)
    how = ctx.params['how']
    if how == 'ranges':
        model = lg.LGANM(np.array(rows, dtype=float), (0, 1), (1, 2), random_state=cseed)
    else:
        model = lg.LGANM(np.array(rows, dtype=float), np.zeros(p), np.ones(p), random_state=cseed)

    def call(sd):
        return model.sample(n, random_state=sd) if sd is not None else model.sample(n)
    return _pair(ctx, 'lganm_seeded_model', call, dict(W=rows, cseed=cseed, how=how, n=n), dict(pattern=[list(r) for r in pat], how=how))


def h_normal_sample(ctx):
    e = ctx.eng
    nd = ctx.mod('sempler.normal_distribution')
    p, n = ctx.params['p'], ctx.params['n']
    mean = [e.real('m_%d' % i) for i in range(p)]
    cov = [[None] * p for _ in range(p)]
    for i in range(p):
        for j in range(i, p):
            cov[i][j] = cov[j][i] = e.real('c_%d_%d' % (i, j))
    dist = nd.NormalDistribution(np.array(mean, dtype=float), np.array(cov, dtype=float))

    def call(sd):
        return dist.sample(n, random_state=sd)
    return _pair(ctx, 'normal_sample', call, dict(mean=mean, cov=cov, n=n), dict(p=p, n=n))


NOISES = ['normal', 'uniform', 'laplace']
AKINDS = ['none', 'do', 'shift', 'noise', 'do+shift', 'do+noise']


def h_anm_sample(ctx):
    from harness.C02 import UF
    e = ctx.eng
    am = ctx.mod('sempler.anm')
    nz = ctx.mod('sempler.noise')
    p, n = ctx.params['p'], ctx.params['n']
    rows, pat = I.weighted_dag(ctx)
    kinds = []
    nt = 0
    for i in range(p):
        c = e.int('kind_%d' % i)
        e.assume(c >= 0)
        e.assume(c < len(AKINDS))
        k = AKINDS[int(c)]
        if k != 'none':
            nt += 1
            if ctx.params.get('max_targets') is not None and nt > ctx.params['max_targets']:
                from symx.core import PathInfeasible
                raise PathInfeasible()
        kinds.append(k)
    pa = [[a, b] for a, b in zip([e.real('na_%d' % i) for i in range(p)], [e.real('nb_%d' % i) for i in range(p)])]
    ia = [[e.real('ia_%d' % i), e.real('ib_%d' % i)] for i in range(p)]
    for a, b in pa + ia:
        e.assume(b > a)
        e.assume(b > 0)

    def mk(kind, a, b):
        return nz.normal(a, b) if kind == 'normal' else (nz.uniform(a, b) if kind == 'uniform' else nz.laplace(a, b))
    calls = []
    assignments = [UF(i, 'vector', calls) if any(pat[j][i] for j in range(p)) else None for i in range(p)]
    noises = [mk(NOISES[i % 3], *pa[i]) for i in range(p)]
    do, shift, noise = {}, {}, {}
    for i in range(p):
        if 'do' in kinds[i]:
            do[i] = mk(NOISES[(i + 1) % 3], *ia[i])
        if 'shift' in kinds[i]:
            shift[i] = mk(NOISES[(i + 2) % 3], *ia[i])
        if 'noise' in kinds[i]:
            noise[i] = mk(NOISES[(i + 1) % 3], *ia[i])
    model = am.ANM(np.array(rows, dtype=float), assignments, noises)

    def call(sd):
        return model.sample(n, do_interventions=do, shift_interventions=shift, noise_interventions=noise, random_state=sd)
    return _pair(ctx, 'anm_sample', call, dict(A=rows, kinds=kinds, noise_params=pa, int_params=ia, n=n),
                 dict(pattern=[list(r) for r in pat], kinds=kinds))


def h_gen(which):
    def fn(ctx):
        e = ctx.eng
        gen = ctx.mod('sempler.generators')
        p = ctx.params['p']
        wmin, wmax = e.real('w_min'), e.real('w_max')
        e.assume(wmin <= wmax)
        k = e.real('k')
        e.assume(k >= 0)
        e.assume(k <= p - 1)

        def call(sd):
            if which == 'avg':
                return list(gen.dag_avg_deg(p, k, wmin, wmax, return_ordering=True, random_state=sd))
            return list(gen.dag_full(p, wmin, wmax, return_ordering=True, random_state=sd))
        return _pair(ctx, 'dag_' + which, call, dict(p=p, k=k, w_min=wmin, w_max=wmax), dict(p=p))
    return fn


def h_targets(ctx):
    e = ctx.eng
    gen = ctx.mod('sempler.generators')
    p, replace = ctx.params['p'], ctx.params['replace']
    K, lo, hi = e.int('K'), e.int('lo'), e.int('hi')
    e.assume(K >= 0)
    e.assume(K <= 2)
    e.assume(lo >= 0)
    e.assume(lo <= hi)
    e.assume(hi <= p)

    def call(sd):
        return gen.intervention_targets(p, K, (lo, hi), replace=replace, random_state=sd)
    return _pair(ctx, 'intervention_targets', call, dict(p=p, K=K, lo=lo, hi=hi, replace=replace), dict(p=p, replace=replace))


def h_split(ctx):
    e = ctx.eng
    ut = ctx.mod('sempler.utils')
    n = ctx.params['n']
    xs = [e.real('x%d' % r) for r in range(n)]
    r0 = e.real('r0')
    e.assume(r0 >= 0)
    e.assume(r0 <= 1)

    def call(sd):
        arr = np.ndarray._new(list(xs), (n,), 'float')
        out = ut.split_data([arr], [r0, 1 - r0], random_state=sd) if sd is not None else ut.split_data([arr], [r0, 1 - r0], random_state=None)
        return [f[0] for f in out]
    return _pair(ctx, 'split_data', call, dict(data=xs, r0=r0), dict(n=n))


def h_edges(which):
    def fn(ctx):
        e = ctx.eng
        ut = ctx.mod('sempler.utils')
        rows, pat = I.weighted_dag(ctx)
        p = len(pat)
        ne = sum(sum(r) for r in pat)
        feas = ne if which == 'remove' else p * (p - 1) // 2 - ne
        k = e.int('no_edges')
        e.assume(k >= 0)
        e.assume(k <= feas + 1)
        f = ut.remove_edges if which == 'remove' else ut.add_edges

        def call(sd):
            return f(np.array(rows, dtype=float), k, random_state=sd)
        return _pair(ctx, which + '_edges', call, dict(A=rows, no_edges=k), dict(pattern=[list(r) for r in pat]), size=p)
    return fn


# ---- replay on the real library -----------------------------------------------------------------

def _real_call(inp):
    import numpy
    s = real_sempler()
    api = inp['api']
    fl = lambda v: float(unj(v))
    if api == 'lganm_init':
        W = numpy.array(unj_float(inp['W']), dtype=float)

        def call(sd):
            m = s.LGANM(W, (fl(inp['mlo']), fl(inp['mhi'])), (fl(inp['vlo']), fl(inp['vhi'])), random_state=sd)
            return [m.means, m.variances]
    elif api == 'lganm_sample':
        W = numpy.array(unj_float(inp['W']), dtype=float)
        model = s.LGANM(W, numpy.array(unj_float(inp['means']), dtype=float), numpy.array(unj_float(inp['variances']), dtype=float))
        t = int(inp['target'])
        do = {t: (fl(inp['do_m']), fl(inp['do_v']))} if t < len(W) else None
        call = lambda sd: [model.sample(max(int(inp['n']), 3), do_interventions=do, random_state=sd)]
    elif api == 'lganm_seeded_model':
        W = numpy.array(unj_float(inp['W']), dtype=float)
        p = len(W)
        cs = int(unj(inp['cseed'])) % (2 ** 32)
        model = s.LGANM(W, (0, 1), (1, 2), random_state=cs) if inp['how'] == 'ranges' else s.LGANM(W, numpy.zeros(p), numpy.ones(p), random_state=cs)
        call = lambda sd: [model.sample(max(int(inp['n']), 3), random_state=sd) if sd is not None else model.sample(max(int(inp['n']), 3))]
    elif api == 'normal_sample':
        mean = numpy.array(unj_float(inp['mean']), dtype=float)
        p = len(mean)
        B = numpy.arange(1.0, p * p + 1).reshape(p, p) / p
        cov = B @ B.T            # a valid covariance (the model's symbolic one need not be PSD)
        dist = s.NormalDistribution(mean, cov)
        call = lambda sd: [dist.sample(max(int(inp['n']), 3), random_state=sd)]
    elif api == 'anm_sample':
        A = numpy.array(unj_float(inp['A']), dtype=float)
        p = len(A)
        mk = lambda kind, a, b: (s.noise.normal(a, b) if kind == 'normal' else (s.noise.uniform(a, b) if kind == 'uniform' else s.noise.laplace(a, b)))
        pa = [[fl(a), fl(b)] for a, b in inp['noise_params']]
        ia = [[fl(a), fl(b)] for a, b in inp['int_params']]
        kinds = inp['kinds']
        assignments = [(lambda X: numpy.sin(X @ numpy.arange(1.0, X.shape[1] + 1))) if (A[:, i] != 0).any() else None for i in range(p)]
        noises = [mk(NOISES[i % 3], *pa[i]) for i in range(p)]
        do, shift, noise = {}, {}, {}
        for i in range(p):
            if 'do' in kinds[i]:
                do[i] = mk(NOISES[(i + 1) % 3], *ia[i])
            if 'shift' in kinds[i]:
                shift[i] = mk(NOISES[(i + 2) % 3], *ia[i])
            if 'noise' in kinds[i]:
                noise[i] = mk(NOISES[(i + 1) % 3], *ia[i])
        model = s.ANM(A, assignments, noises)
        call = lambda sd: [model.sample(max(int(inp['n']), 3), do_interventions=do, shift_interventions=shift, noise_interventions=noise, random_state=sd)]
    elif api in ('dag_avg', 'dag_full'):
        p = int(inp['p'])
        if api == 'dag_avg':
            call = lambda sd: list(s.generators.dag_avg_deg(max(p, 5), fl(inp['k']) + 1, fl(inp['w_min']), fl(inp['w_max']), return_ordering=True, random_state=sd))
        else:
            call = lambda sd: list(s.generators.dag_full(max(p, 5), fl(inp['w_min']), fl(inp['w_max']), return_ordering=True, random_state=sd))
    elif api == 'intervention_targets':
        call = lambda sd: s.generators.intervention_targets(int(inp['p']) + 5, int(unj(inp['K'])) + 2, (int(unj(inp['lo'])), int(unj(inp['hi']))), replace=inp['replace'], random_state=sd)
    elif api == 'split_data':
        r0 = fl(inp['r0'])
        call = lambda sd: [f[0] for f in s.utils.split_data([numpy.arange(11.0)], [r0, 1 - r0], random_state=sd)]
    else:
        A = numpy.array(unj_float(inp['A']), dtype=float)
        f = s.utils.remove_edges if api == 'remove_edges' else s.utils.add_edges
        call = lambda sd: [f(A, int(unj(inp['no_edges'])), random_state=sd)]
    return call


def _rflat(x):
    import numpy
    if isinstance(x, numpy.ndarray):
        return [repr(x.shape)] + x.ravel().tolist()
    if isinstance(x, (list, tuple)):
        out = ['L%d' % len(x)]
        for y in x:
            out += _rflat(y)
        return out
    return [x]


def _rrun(call, sd):
    try:
        return _rflat(call(sd))
    except Exception as ex:
        return ['raised ' + type(ex).__name__]


def replay(rec):
    import numpy
    if rec['call'] == 'reach':
        return _replay_reach(rec)
    inp = rec['inputs']
    call = _real_call(inp)
    sd = int(unj(inp['seed'])) % (2 ** 32)
    if inp.get('seedtype') == 'npint':
        sd = numpy.int64(sd)
    numpy.random.seed(987)
    a = _rrun(call, sd)
    # perturbing history: other sampling and reseeding of the global generator, other library calls
    numpy.random.seed(1234567)
    numpy.random.normal(size=11)
    numpy.random.default_rng(5).uniform(size=3)
    real_sempler().LGANM(numpy.array([[0, 1.0], [0, 0]]), (0, 1), (1, 2)).sample(4)
    # other utilities on other graphs of the same size (state carried inside the library)
    u = real_sempler().utils
    size = len(inp['A']) if 'A' in inp else 3
    for f, A, k in ((u.add_edges, numpy.triu(numpy.ones((size, size)), 1), 0), (u.remove_edges, numpy.zeros((size, size)), 0),
                    (u.add_edges, numpy.zeros((size, size)), 1 if size > 1 else 0)):
        try:
            f(A, k, random_state=7)
        except Exception:
            pass
    b = _rrun(call, sd)
    same = (len(a) == len(b)) and all((x == y) or (isinstance(x, float) and isinstance(y, float) and x != x and y != y) for x, y in zip(a, b))
    return (not same, '%s with random_state=%d called twice with other sampling / reseeding in between: results %s' % (inp['api'], sd, 'DIFFER: %s vs %s' % (str(a)[:120], str(b)[:120]) if not same else 'are identical'))


_REACH_INPUTS = {
    'lganm_init': dict(api='lganm_init', W=[[0, 1], [0, 0]], mlo=0, mhi=1, vlo=1, vhi=2),
    'lganm_sample': dict(api='lganm_sample', W=[[0, 1], [0, 0]], means=[0, 0], variances=[1, 1], target=2, do_m=0, do_v=0, n=3),
    'normal_sample': dict(api='normal_sample', mean=[0, 0], n=3),
    'lganm_seeded_model': dict(api='lganm_seeded_model', W=[[0, 1], [0, 0]], cseed=0, how='arrays', n=3),
    'anm_sample': dict(api='anm_sample', A=[[0, 1], [0, 0]], kinds=['none', 'none'], noise_params=[[0, 1], [0, 1]], int_params=[[0, 1], [0, 1]], n=3),
    'dag_avg': dict(api='dag_avg', p=4, k=1, w_min=1, w_max=2),
    'dag_full': dict(api='dag_full', p=4, w_min=1, w_max=2),
    'intervention_targets': dict(api='intervention_targets', p=3, K=2, lo=1, hi=2, replace=True),
    'split_data': dict(api='split_data', r0='1/2'),
    'add_edges': dict(api='add_edges', A=[[0, 1, 0], [0, 0, 0], [0, 0, 0]], no_edges=1),
    'remove_edges': dict(api='remove_edges', A=[[0, 1, 1], [0, 0, 1], [0, 0, 0]], no_edges=1),
}


def _replay_reach(rec):
    api = rec['obligation'].split('@')[0]
    call = _real_call(_REACH_INPUTS[api])
    outs = set()
    for i in range(12):
        outs.add(repr(_rrun(call, None)))
    return (len(outs) == 1, '%s: 12 consecutive unseeded calls gave %d distinct results' % (api, len(outs)))


def obligations(tier):
    q = tier == 'quick'
    ob = []
    R = ('consecutive unseeded calls can differ',)

    def add(name, fn, cubes, descr, weight=5, reach=R):
        ob.append(Obligation(name, fn, cubes, descr, expect=('returned',), reach_expect=reach, weight=weight))
    for p in (1, 2, 3):
        add('lganm_init@p%d' % p, h_lganm_init, I.dag_pair_cubes(p, 0), "LGANM(W, (lo,hi), (lo,hi), random_state=s), %d variables" % p, p)
    for p in (1, 2, 3):
        add('lganm_sample@p%d' % p, h_lganm_sample, [dict(c, n=n) for c in I.dag_pair_cubes(p, 0) for n in (1, 2)],
            "LGANM.sample(n, do_interventions, random_state=s), %d variables" % p, p * 4)
    add('lganm_seeded_model@p2', h_lganm_seeded_model, [dict(c, n=1, how=h) for c in I.dag_pair_cubes(2, 0) for h in ('ranges', 'arrays')],
        "LGANM(..., random_state=c) followed by seeded and by unseeded sample() calls", 5)
    NPI = dict(seedtype='npint', mode='seeded')
    add('npint_seed@normal_sample', h_normal_sample, [dict(p=2, n=1, **NPI)], "NormalDistribution.sample with a numpy integer scalar as random_state", 2, reach=())
    add('npint_seed@lganm_sample', h_lganm_sample, [dict(c, n=1, **NPI) for c in I.dag_pair_cubes(2, 0)], "LGANM.sample with a numpy integer seed", 4, reach=())
    add('npint_seed@lganm_init', h_lganm_init, [dict(c, **NPI) for c in I.dag_pair_cubes(2, 0)], "LGANM(...) with a numpy integer seed", 2, reach=())
    add('npint_seed@anm_sample', h_anm_sample, [dict(c, n=1, max_targets=0, **NPI) for c in I.dag_pair_cubes(2, 0)], "ANM.sample with a numpy integer seed", 4, reach=())
    add('npint_seed@dag_full', h_gen('full'), [dict(p=3, **NPI)], "dag_full with a numpy integer seed", 3, reach=())
    add('npint_seed@dag_avg', h_gen('avg'), [dict(p=3, **NPI)], "dag_avg_deg with a numpy integer seed", 3, reach=())
    add('npint_seed@intervention_targets', h_targets, [dict(p=3, replace=True, **NPI)], "intervention_targets with a numpy integer seed", 3, reach=())
    add('npint_seed@split_data', h_split, [dict(n=3, **NPI)], "split_data with a numpy integer seed", 2, reach=())
    add('npint_seed@add_edges', h_edges('add'), [dict(c, **NPI) for c in I.dag_pair_cubes(2, 0)], "add_edges with a numpy integer seed", 2, reach=())
    add('normal_sample@p2', h_normal_sample, [dict(p=2, n=n) for n in (1, 2)], "NormalDistribution.sample(n, random_state=s)")
    for p in (1, 2):
        add('anm_sample@p%d' % p, h_anm_sample, [dict(c, n=n) for c in I.dag_pair_cubes(p, 0) for n in (1, 2)],
            "ANM.sample with library noise and every intervention assignment, %d variables" % p, 10 * p)
    add('anm_sample@p3', h_anm_sample, [dict(c, n=(1 if q else 2), max_targets=(1 if q else None)) for c in I.dag_pair_cubes(3, 3)],
        "ANM.sample, 3 variables" + (", at most 1 intervened variable" if q else ", all intervention assignments"), 60)
    pg = 3 if q else 4
    S = dict(mode='seeded')
    U = dict(mode='unseeded')
    add('dag_avg@p%d' % pg, h_gen('avg'), [dict(p=pg, **S)], "dag_avg_deg(p, k, w_min, w_max, return_ordering=True, random_state=s)", 10, reach=())
    add('dag_full@p%d' % pg, h_gen('full'), [dict(p=pg, **S)], "dag_full(p, w_min, w_max, return_ordering=True, random_state=s)", 10, reach=())
    add('dag_avg@unseeded', h_gen('avg'), [dict(p=3, **U)], "two unseeded dag_avg_deg calls", 2)
    add('dag_full@unseeded', h_gen('full'), [dict(p=3, **U)], "two unseeded dag_full calls", 2)
    add('intervention_targets@p3', h_targets, [dict(p=3, replace=r, **S) for r in (True, False)], "intervention_targets(3, K, (lo, hi), replace, random_state=s)", 10, reach=())
    add('intervention_targets@unseeded', h_targets, [dict(p=2, replace=True, **U)], "two unseeded intervention_targets calls", 2)
    add('split_data@n3', h_split, [dict(n=3)], "split_data([x], [r, 1-r], random_state=s)", 5)
    add('add_edges@p3', h_edges('add'), [dict(c, **S) for c in I.dag_pair_cubes(3, 2)], "add_edges(A, k, random_state=s)", 20, reach=())
    add('remove_edges@p3', h_edges('remove'), [dict(c, **S) for c in I.dag_pair_cubes(3, 2)], "remove_edges(A, k, random_state=s)", 10, reach=())
    add('add_edges@unseeded', h_edges('add'), [dict(c, **U) for c in I.dag_pair_cubes(2, 0)], "two unseeded add_edges calls, 2 nodes", 2)
    add('remove_edges@unseeded', h_edges('remove'), [dict(p=3, fixpairs=[[0, 1, 1], [0, 2, 1], [1, 2, 0]], **U)], "two unseeded remove_edges calls on a fork", 2)
    return ob
