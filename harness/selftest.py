"""Mutation self-test: applies each mutant (a textual patch from /verif/mutants/*.json, or a
seeded change /verif/seeded/<id>/patch.diff) to a SCRATCH git worktree of /repo under /tmp (removed
at the end; /repo itself is never touched), runs the quick check of the property it is meant to
break against that copy (VERIF_REPO), expects exit 1 with a VIOLATION line, and restores the copy
(git checkout) straight afterwards.  Not part of quick/thorough.

usage: vcheck selftest [--seeded] [--tier quick|thorough] [Cxx ...] [name-substring ...]"""
import glob
import json
import os
import subprocess
import sys
import time

VERIF = os.path.dirname(os.path.dirname(os.path.abspath(__file__)))
SRC_REPO = '/repo'
REPO = '/tmp/verif_selftest_wt_%d' % os.getpid()     # scratch worktree: /repo itself is never modified


def _clean():
    subprocess.run(['git', '-C', REPO, 'checkout', '--', '.'], check=True)


def _dirty():
    out = subprocess.run(['git', '-C', REPO, 'status', '--porcelain', '--untracked-files=no'], capture_output=True, text=True).stdout
    return out.strip()


def _run_check(pid, tier):
    env = dict(os.environ)
    env['VERIF_NO_EVIDENCE'] = '1'
    env['VERIF_REPLAY_DIR'] = '/tmp/verif_selftest_replays'
    env['VERIF_REPO'] = REPO
    t0 = time.time()
    r = subprocess.run([os.path.join(VERIF, 'vcheck'), pid, '--tier', tier], capture_output=True, text=True, env=env)
    return r.returncode, r.stdout, time.time() - t0


def main(argv):
    tier = 'quick'
    if '--tier' in argv:
        i = argv.index('--tier')
        tier = argv[i + 1]
        argv = argv[:i] + argv[i + 2:]
    seeded_only = '--seeded' in argv
    argv = [a for a in argv if a != '--seeded']
    pids = [a for a in argv if a.startswith('C') and a[1:].isdigit()]
    subs = [a for a in argv if a not in pids]
    subprocess.run(['git', '-C', SRC_REPO, 'worktree', 'remove', '--force', REPO], capture_output=True)
    r = subprocess.run(['git', '-C', SRC_REPO, 'worktree', 'add', '--detach', REPO, 'HEAD'], capture_output=True, text=True)
    if r.returncode != 0:
        print("selftest: cannot create scratch worktree: " + r.stderr)
        return 2
    # carry over uncommitted edits of /repo's working tree (the checks always run on the working tree)
    d = subprocess.run(['git', '-C', SRC_REPO, 'diff', 'HEAD'], capture_output=True, text=True).stdout
    if d.strip():
        subprocess.run(['git', '-C', REPO, 'apply'], input=d, text=True, check=True)
        subprocess.run(['git', '-C', REPO, 'commit', '-qam', 'working tree'], capture_output=True)
    try:
        return _main(tier, seeded_only, pids, subs)
    finally:
        subprocess.run(['git', '-C', SRC_REPO, 'worktree', 'remove', '--force', REPO], capture_output=True)


def _main(tier, seeded_only, pids, subs):
    items = []
    if not seeded_only:
        for f in sorted(glob.glob(os.path.join(VERIF, 'mutants', '*.json'))):
            for m in json.load(open(f)):
                items.append(('mutant', m['name'], m['property'], m))
    for d in sorted(glob.glob(os.path.join(VERIF, 'seeded', '*'))):
        mf = os.path.join(d, 'meta.json')
        if os.path.exists(mf):
            meta = json.load(open(mf))
            if 'caught_by' in meta and not meta['caught_by']:
                print("seeded    %-8s %-55s DOCUMENTED MISS: %s" % (meta['property'], os.path.basename(d), meta.get('status', '')[:160]))
                continue
            items.append(('seeded', os.path.basename(d), meta['property'], dict(diff=os.path.join(d, 'patch.diff'),
                          checks=meta.get('caught_by', [meta['property']]))))
    results = []
    for kind, name, pid, m in items:
        if pids and pid not in pids:
            continue
        if subs and not any(s in name for s in subs):
            continue
        checks = m.get('checks', [pid])
        try:
            if kind == 'mutant':
                for (rel, old, new) in m['patches']:
                    path = os.path.join(REPO, rel)
                    src = open(path).read()
                    if src.count(old) != 1:
                        raise RuntimeError("patch does not apply uniquely to %s" % rel)
                    open(path, 'w').write(src.replace(old, new))
            else:
                subprocess.run(['git', '-C', REPO, 'apply', m['diff']], check=True)
            for c in checks:
                rc, out, secs = _run_check(c, tier)
                viol = [l for l in out.splitlines() if l.startswith('VIOLATION')]
                status = 'KILLED' if (rc == 1 and viol) else ('INCONCLUSIVE' if rc == 2 else 'SURVIVED')
                print("%-9s %-8s %-55s by %s: %s (exit %d, %.0fs)" % (kind, pid, name, c, status, rc, secs))
                if status != 'KILLED':
                    print("    " + "\n    ".join(out.splitlines()[-4:]))
                results.append((kind, name, pid, c, status))
                sys.stdout.flush()
        except Exception as ex:
            print("%-9s %-8s %-55s ERROR %s" % (kind, pid, name, ex))
            results.append((kind, name, pid, '-', 'ERROR'))
        finally:
            _clean()
    killed = sum(1 for r in results if r[4] == 'KILLED')
    print("selftest: %d/%d killed" % (killed, len(results)))
    json.dump([dict(kind=r[0], name=r[1], property=r[2], check=r[3], status=r[4]) for r in results],
              open('/tmp/verif_selftest_last.json', 'w'), indent=1)
    return 0 if killed == len(results) else 1
