"""C15 -- Graph relations agree with their definitions on every PDAG."""
import itertools
import symnp as np
from harness.common import Obligation, PathResult
from harness import inputs as I
from harness.calllog import CallLog, real_replay
from oracles import graph as G

PID = 'C15'

META = dict(
    explanation="pa, ch, neighbors, adj, na, ancestors/an, descendants/desc, transitive_closure, semi_directed_paths, "
                "separates and chain_component are executed on every binary PDAG with acyclic directed part and on every "
                "DAG pattern with symbolic real weights (any sign); results are compared with the definitions "
                "(edge relations, directed reachability, the set of all simple semi-directed node sequences, "
                "undirected connectivity).",
    bounds=dict(quick="binary PDAGs p <= 3 all, p = 4 with <= 4 edges; weighted DAGs p <= 4; all nodes and node pairs; separates: all pairwise-disjoint (S, A, B) for p <= 3, singletons A, B with all S at p = 4; overlapping triples for the exception; wide: 3-node patterns embedded at nodes 11,1,9 of a 12-node graph (4-node weighted DAGs in the thorough tier)",
                thorough="binary PDAGs p <= 4 all (3,608); weighted DAGs p <= 5 with <= 6 edges"),
    outside=["recursion depth (large p)", "PDAGs whose directed part is cyclic"],
    stubs=["numpy -> symnp"],
    assumptions=["z3 sound; symnp agrees with numpy (validated per path against the real library)"],
)


# ---- definitions on a concrete pattern ------------------------------------

def rel(nz):
    p = len(nz)
    d = lambda i, j: nz[i][j] and not nz[j][i]
    u = lambda i, j: nz[i][j] and nz[j][i]
    a = lambda i, j: nz[i][j] or nz[j][i]
    return p, d, u, a


def reach_dir(nz):
    """reach[i] = nodes reachable from i by >= 1 directed edges"""
    p, d, u, a = rel(nz)
    out = []
    for s in range(p):
        seen = set()
        stack = [s]
        while stack:
            x = stack.pop()
            for y in range(p):
                if d(x, y) and y not in seen:
                    seen.add(y)
                    stack.append(y)
        out.append(seen)
    return out


def simple_paths(nz, fro, to):
    """all simple node sequences fro..to following directed edges forwards or undirected edges"""
    p, d, u, a = rel(nz)
    res = []
    # an isolated node cannot lie on a path, so candidate sequences are taken over non-isolated nodes only
    others = [x for x in range(p) if x != fro and x != to and any(a(x, y) for y in range(p))]
    if fro == to:
        return [[fro]]
    for k in range(len(others) + 1):
        for mid in itertools.permutations(others, k):
            seq = [fro] + list(mid) + [to]
            if all(d(seq[t], seq[t + 1]) or u(seq[t], seq[t + 1]) for t in range(len(seq) - 1)):
                res.append(seq)
    return res


def chain_comp(nz, i):
    p, d, u, a = rel(nz)
    seen = {i}
    stack = [i]
    while stack:
        x = stack.pop()
        for y in range(p):
            if u(x, y) and y not in seen:
                seen.add(y)
                stack.append(y)
    return seen


def _sets(p, tier_small, pat=None):
    """(S, A, B) triples: all pairwise disjoint assignments for small p, else singletons"""
    out = []
    if p > 5 and pat is not None:
        U = I.universe(pat)
        for a in U:
            for b in U:
                if a != b:
                    for S in I.subsets([x for x in U if x not in (a, b)]):
                        out.append((set(S), {a}, {b}))
        return out
    if tier_small:
        for lab in itertools.product((0, 1, 2, 3), repeat=p):
            S = {i for i in range(p) if lab[i] == 1}
            A = {i for i in range(p) if lab[i] == 2}
            B = {i for i in range(p) if lab[i] == 3}
            out.append((S, A, B))
    else:
        for a in range(p):
            for b in range(p):
                if a != b:
                    rest = [x for x in range(p) if x not in (a, b)]
                    for S in I.subsets(rest):
                        out.append((set(S), {a}, {b}))
    return out


def _checks(u, log, M, pat, p, isdag):
    cl = []
    nz = [[bool(pat[i][j]) for j in range(p)] for i in range(p)]
    _, d, un, a = rel(nz)
    R = reach_dir(nz)

    def okset(name, r, want):
        if r[0] != 'ok':
            cl.append((name + ' must not raise', False))
            return
        got = r[1]
        cl.append((name, isinstance(got, set) and set(int(x) for x in got) == want))

    for i in range(p):
        okset('pa(%d) = nodes with a directed edge into it' % i, log.call(u, 'pa', i, M), {j for j in range(p) if d(j, i)})
        okset('ch(%d)' % i, log.call(u, 'ch', i, M), {j for j in range(p) if d(i, j)})
        okset('neighbors(%d)' % i, log.call(u, 'neighbors', i, M), {j for j in range(p) if un(i, j)})
        okset('adj(%d)' % i, log.call(u, 'adj', i, M), {j for j in range(p) if a(i, j)})
        anc = {j for j in range(p) if i in R[j]}
        okset('ancestors(%d) = directed reachability backwards' % i, log.call(u, 'ancestors', i, M), anc)
        okset('an(%d)' % i, log.call(u, 'an', i, M), anc)
        okset('descendants(%d) = directed reachability incl. the node' % i, log.call(u, 'descendants', i, M), R[i] | {i})
        okset('desc(%d)' % i, log.call(u, 'desc', i, M), R[i] | {i})
        okset('chain_component(%d) = undirected connectivity' % i, log.call(u, 'chain_component', i, M), chain_comp(nz, i))
        for j in range(p):
            okset('na(%d,%d) = neighbours of y adjacent to x' % (i, j), log.call(u, 'na', i, j, M),
                  {k for k in range(p) if un(i, k) and a(j, k)})
            r = log.call(u, 'semi_directed_paths', i, j, M)
            if r[0] != 'ok':
                cl.append(('semi_directed_paths must not raise', False))
            else:
                got = sorted([int(x) for x in path] for path in r[1])
                want = sorted(simple_paths(nz, i, j))
                cl.append(('semi_directed_paths(%d,%d) = every simple semi-directed path, each once' % (i, j), got == want))
    r = log.call(u, 'transitive_closure', M)
    if isdag:
        if r[0] != 'ok':
            cl.append(('transitive_closure of a DAG must not raise', False))
        else:
            tc = r[1]
            good = tc.shape == (p, p)
            cl.append(('transitive_closure shape', good))
            if good:
                for i in range(p):
                    for j in range(p):
                        cl.append(('transitive_closure[%d,%d] in {0,1} = directed reachability' % (i, j),
                                   tc[i, j] == (1 if (j in R[i] and j != i) else 0)))
    else:
        cl.append(('transitive_closure raises ValueError iff the graph is not a DAG', r == ('exc', 'ValueError')))
    small = p <= 3
    for (S, A, B) in _sets(p, small, pat):
        r = log.call(u, 'separates', set(S), set(A), set(B), M)
        want = all(any(x in S for x in path) for a_ in A for b_ in B for path in simple_paths(nz, a_, b_))
        cl.append(('separates(%s,%s,%s)' % (sorted(S), sorted(A), sorted(B)), r[0] == 'ok' and bool(r[1]) == want))
    # overlapping sets raise ValueError
    if p >= 2:
        for (S, A, B) in [({0}, {0}, {1}), ({1}, {0}, {1}), (set(), {0, 1}, {1})]:
            r = log.call(u, 'separates', set(S), set(A), set(B), M)
            cl.append(('separates raises ValueError for overlapping sets', r == ('exc', 'ValueError')))
    return cl


def h_binary(ctx):
    u = ctx.mod('sempler.utils')
    p = ctx.params['p']
    pat = I.binary_pdag(ctx)
    M = I.arr(pat, ctx.params.get('dtype', 'int'))
    M.buf.frozen = True
    isdag = all(not (pat[i][j] and pat[j][i]) for i in range(p) for j in range(p))
    log = CallLog('sempler.utils')
    cl = _checks(u, log, M, pat, p, isdag)
    return PathResult('dag' if isdag else 'pdag', cl, inputs=dict(calls=log.inputs(), P=[list(r) for r in pat], dtype=ctx.params.get('dtype', 'int')),
                      call='binary', info=dict(pattern=[list(r) for r in pat]),
                      diff=(real_replay('sempler.utils'), log.symbolic()))


def h_weighted(ctx):
    u = ctx.mod('sempler.utils')
    p = ctx.params['p']
    rows, pat = I.weighted_dag(ctx)
    M = I.arr(rows, 'float')
    M.buf.frozen = True
    log = CallLog('sempler.utils')
    cl = _checks(u, log, M, pat, p, True)
    return PathResult('dag', cl, inputs=dict(calls=log.inputs(), P=rows, dtype='float'), call='weighted',
                      info=dict(pattern=[list(r) for r in pat], weights='symbolic reals'),
                      diff=(real_replay('sempler.utils'), log.symbolic()))


def obligations(tier):
    ob = []
    for p in (1, 2, 3):
        ob.append(Obligation('binary_pdag_p%d' % p, h_binary, I.pair_cubes(p, 2 if p == 3 else 0),
                             "all binary PDAGs (acyclic directed part) on %d nodes" % p, expect=('dag',) + (('pdag',) if p > 1 else ()), weight=p))
        ob.append(Obligation('weighted_dag_p%d' % p, h_weighted, I.dag_pair_cubes(p, 2 if p == 3 else 0),
                             "all DAG patterns on %d nodes with symbolic real weights" % p, expect=('dag',), weight=p))
        for dt in ('bool', 'float'):
            ob.append(Obligation('binary_pdag_%s_p%d' % (dt, p), h_binary, I.pair_cubes(p, 2 if p == 3 else 0, dict(dtype=dt)),
                                 "all binary PDAGs on %d nodes, dtype %s" % (p, dt), expect=('dag',) + (('pdag',) if p > 1 else ()), weight=p))
    ob.append(Obligation('weighted_dag_p4', h_weighted, I.dag_pair_cubes(4, 3),
                         "all DAG patterns on 4 nodes with symbolic real weights", expect=('dag',), weight=20))
    wl = [11, 1, 9] if tier == 'quick' else [11, 1, 9, 0]
    ob.append(Obligation('weighted_dag_wide_p12', h_weighted, I.embed_cubes(12, wl, 3, dag=True),
                         "all %d-node DAG patterns with symbolic weights embedded at nodes %s of a 12-node graph" % (len(wl), wl), expect=('dag',), weight=60))
    ob.append(Obligation('binary_pdag_wide_p12', h_binary, I.embed_cubes(12, [11, 1, 9], 1),
                         "all 3-node binary PDAGs embedded at nodes 11, 1, 9 of a 12-node graph", expect=('dag', 'pdag'), weight=20))
    if tier == 'quick':
        ob.append(Obligation('binary_pdag_p4_le4', h_binary, I.pair_cubes(4, 2, dict(max_edges=4)),
                             "binary PDAGs on 4 nodes with at most 4 edges", expect=('dag', 'pdag'), weight=20))
    else:
        ob.append(Obligation('binary_pdag_p4', h_binary, I.pair_cubes(4, 3),
                             "all binary PDAGs (acyclic directed part) on 4 nodes", expect=('dag', 'pdag'), weight=40))
        ob.append(Obligation('weighted_dag_p5_le6', h_weighted, I.dag_pair_cubes(5, 3, dict(max_edges=6)),
                             "DAG patterns on 5 nodes with <= 6 edges, symbolic real weights", expect=('dag',), weight=60))
    return ob


def replay(rec):
    import numpy
    from harness.common import real_sempler, unj_float
    s = real_sempler()
    u = s.utils
    inp = rec['inputs']
    P = numpy.array(unj_float(inp['P']), dtype={'int': int, 'bool': bool}.get(inp.get('dtype'), float))
    p = len(P)
    nz = [[bool(P[i][j] != 0) for j in range(p)] for i in range(p)]
    _, d, un, a = rel(nz)
    R = reach_dir(nz)
    isdag = all(not (nz[i][j] and nz[j][i]) for i in range(p) for j in range(p))
    bad = []

    def chk(name, got, want):
        if got != want:
            bad.append('%s = %s, expected %s' % (name, got, want))
    try:
        for i in range(p):
            chk('pa(%d)' % i, set(map(int, u.pa(i, P))), {j for j in range(p) if d(j, i)})
            chk('ch(%d)' % i, set(map(int, u.ch(i, P))), {j for j in range(p) if d(i, j)})
            chk('neighbors(%d)' % i, set(map(int, u.neighbors(i, P))), {j for j in range(p) if un(i, j)})
            chk('adj(%d)' % i, set(map(int, u.adj(i, P))), {j for j in range(p) if a(i, j)})
            anc = {j for j in range(p) if i in R[j]}
            chk('ancestors(%d)' % i, set(map(int, u.ancestors(i, P))), anc)
            chk('an(%d)' % i, set(map(int, u.an(i, P))), anc)
            chk('descendants(%d)' % i, set(map(int, u.descendants(i, P))), R[i] | {i})
            chk('desc(%d)' % i, set(map(int, u.desc(i, P))), R[i] | {i})
            chk('chain_component(%d)' % i, set(map(int, u.chain_component(i, P))), chain_comp(nz, i))
            for j in range(p):
                chk('na(%d,%d)' % (i, j), set(map(int, u.na(i, j, P))), {k for k in range(p) if un(i, k) and a(j, k)})
                chk('semi_directed_paths(%d,%d)' % (i, j), sorted([int(x) for x in q] for q in u.semi_directed_paths(i, j, P)),
                    sorted(simple_paths(nz, i, j)))
        if isdag:
            tc = u.transitive_closure(P.copy())
            chk('transitive_closure', [[float(x) for x in r] for r in tc.tolist()],
                [[1.0 if (j in R[i] and j != i) else 0.0 for j in range(p)] for i in range(p)])
        else:
            try:
                u.transitive_closure(P.copy())
                bad.append('transitive_closure accepted a non-DAG')
            except ValueError:
                pass
        for (S, A, B) in _sets(p, p <= 3, [[1 if nz[i][j] else 0 for j in range(p)] for i in range(p)]):
            want = all(any(x in S for x in path) for a_ in A for b_ in B for path in simple_paths(nz, a_, b_))
            chk('separates(%s,%s,%s)' % (sorted(S), sorted(A), sorted(B)), bool(u.separates(set(S), set(A), set(B), P)), want)
        if p >= 2:
            for (S, A, B) in [({0}, {0}, {1}), ({1}, {0}, {1}), (set(), {0, 1}, {1})]:
                try:
                    u.separates(S, A, B, P)
                    bad.append('separates accepted overlapping sets')
                except ValueError:
                    pass
    except Exception as ex:
        bad.append('raised %s: %s' % (type(ex).__name__, ex))
    return (len(bad) > 0, "on P=%s: %s" % (P.tolist(), '; '.join(bad[:5]) or 'all definitions satisfied'))
