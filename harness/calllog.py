"""Generic differential layer: every call of a repo function made by a harness
through CallLog is recorded (arguments + outcome, symbolically); under the
path's model the same call is made on the REAL library with real numpy and the
outcomes are compared.  This validates the symnp shim (the only hand-written
model of the platform) on every path."""
import symnp
from symx.core import SV, SB
from harness.common import real_sempler, unj, unj_float, _js


def _k(v):
    import json
    return json.dumps(v, sort_keys=True, default=str)


class Arr:
    """argument marker: a matrix / vector with an explicit dtype"""

    def __init__(self, data, dt):
        self.data = data
        self.dt = dt


def enc(x):
    """symbolic-side value -> encodable structure (still containing SV/SB)"""
    if isinstance(x, symnp.ndarray):
        return {'__arr__': x.tolist(), 'dtype': x.dt}
    if isinstance(x, (set, frozenset)):
        return {'__set__': sorted((enc(y) for y in x), key=_k)}
    if isinstance(x, dict):
        return {'__dict__': sorted(([enc(k), enc(v)] for k, v in x.items()), key=lambda kv: repr(kv[0]))}
    if isinstance(x, tuple):
        return {'__tuple__': [enc(y) for y in x]}
    if isinstance(x, list):
        return [enc(y) for y in x]
    return x


def dec_real(x):
    """concretised JSON structure -> real numpy / python objects"""
    import numpy
    if isinstance(x, dict):
        if '__arr__' in x:
            dt = {'int': int, 'float': float, 'bool': bool, 'object': object}[x['dtype']]
            data = x['__arr__']
            if x['dtype'] == 'int':
                conv = lambda v: [conv(y) for y in v] if isinstance(v, list) else int(unj(v))
                return numpy.array(conv(data), dtype=int)
            return numpy.array(unj_float(data), dtype=dt)
        if '__set__' in x:
            return set(_hashable(dec_real(y)) for y in x['__set__'])
        if '__dict__' in x:
            return {_hashable(dec_real(k)): dec_real(v) for k, v in x['__dict__']}
        if '__tuple__' in x:
            return tuple(dec_real(y) for y in x['__tuple__'])
        return {k: dec_real(v) for k, v in x.items()}
    if isinstance(x, list):
        return [dec_real(y) for y in x]
    v = unj(x)
    from fractions import Fraction
    if isinstance(v, Fraction):
        return float(v)
    return v


def _hashable(x):
    if isinstance(x, list):
        return tuple(_hashable(y) for y in x)
    return x


def norm_real(x):
    """real-side result -> the same normal form as enc() + concretise"""
    import numpy
    if isinstance(x, numpy.ndarray):
        return {'__arr__': _js(x.tolist()), 'dtype': {'b': 'bool', 'i': 'int', 'u': 'int', 'f': 'float', 'O': 'object'}[x.dtype.kind]}
    if isinstance(x, numpy.generic):
        return _js(x.item())
    if isinstance(x, (set, frozenset)):
        return {'__set__': sorted((norm_real(y) for y in x), key=_k)}
    if isinstance(x, dict):
        return {'__dict__': sorted(([norm_real(k), norm_real(v)] for k, v in x.items()), key=lambda kv: repr(kv[0]))}
    if isinstance(x, tuple):
        return {'__tuple__': [norm_real(y) for y in x]}
    if isinstance(x, list):
        return [norm_real(y) for y in x]
    return _js(x)


class CallLog:
    def __init__(self, module_name):
        self.module_name = module_name
        self.calls = []

    def call(self, mod, fname, *args, expect_exc=(Exception,)):
        """call mod.fname(*args); returns ('ok', result) or ('exc', name)"""
        eargs = [enc(a) for a in args]
        try:
            r = getattr(mod, fname)(*args)
            out = ('ok', r)
            self.calls.append([fname, eargs, ['ok', enc(r)]])
        except symnp.FrozenWrite as ex:
            # the function wrote to an array that belongs to the caller: reported as a (non-'ok') outcome so that the
            # harness's clause fails and the counterexample is replayed, instead of aborting the harness
            out = ('exc', 'MutatedArgument')
            self.calls.append([fname, eargs, ['exc', 'MutatedArgument']])
        except expect_exc as ex:
            out = ('exc', type(ex).__name__)
            self.calls.append([fname, eargs, ['exc', type(ex).__name__]])
        return out

    def symbolic(self):
        return [[c[0], c[2]] for c in self.calls]

    def inputs(self):
        return [[c[0], c[1]] for c in self.calls]


def real_replay(module_name):
    """returns real_fn(concretised_inputs) for PathResult.diff"""
    def fn(conc):
        import importlib
        real_sempler()
        mod = importlib.import_module(module_name)
        out = []
        for fname, eargs in conc['calls']:
            args = [dec_real(a) for a in eargs]
            try:
                r = getattr(mod, fname)(*args)
                out.append([fname, ['ok', norm_real(r)]])
            except Exception as ex:
                out.append([fname, ['exc', type(ex).__name__]])
        return out
    return fn
