"""Deterministic stand-in for rpy2 / R 'drf' used on the REAL side (real numpy, real pandas) for
replaying C19 counterexamples: forest weights are a Gaussian kernel of the query row (rows sum to
1); every fit and prediction is logged.  install() puts it into sys.modules; the repository is not
changed."""
import sys
import types

FITS = []
PREDICTS = []


def reset():
    del FITS[:]
    del PREDICTS[:]


class PackageNotInstalledError(Exception):
    pass


class _Fit:
    variable_importance = None

    def __init__(self, fid):
        self.fid = fid


def _weights(Xtr, Xnew):
    import numpy as np
    d2 = ((Xnew[:, None, :] - Xtr[None, :, :]) ** 2).sum(axis=2)
    W = np.exp(-d2 / 0.5) + 0.05
    return W / W.sum(axis=1, keepdims=True)


class _Drf:
    def drf(self, X_r, Y_r, **params):
        import numpy as np
        fid = len(FITS)
        FITS.append(dict(id=fid, X=np.array(X_r, dtype=float), Y=np.array(Y_r, dtype=float), params=params))
        return _Fit(fid)

    def predict_drf(self, fit, newdata_r):
        import numpy as np
        nd = np.array(newdata_r, dtype=float)
        rec = FITS[fit.fid]
        W = _weights(rec['X'], nd)
        PREDICTS.append(dict(fit=fit.fid, newdata=nd.copy(), weights=W))
        return [W, rec['Y'].copy()]

    def print_drf(self, fit):
        pass

    def variableImportance(self, fit):
        return None


class _Base:
    def as_matrix(self, x):
        import numpy as np
        return np.array(x)


def importr(name):
    if name == 'base':
        return _Base()
    if name == 'drf':
        return _Drf()
    raise PackageNotInstalledError(name)


def install():
    if 'rpy2' in sys.modules and getattr(sys.modules['rpy2'], '_verif_fake', False):
        return
    rpy2 = types.ModuleType('rpy2')
    rpy2._verif_fake = True
    ro = types.ModuleType('rpy2.robjects')
    ro.conversion = types.SimpleNamespace(py2rpy=lambda x: x, rpy2py=lambda x: x)
    ro.r = lambda *a, **k: None
    n2 = types.ModuleType('rpy2.robjects.numpy2ri')
    n2.activate = lambda: None
    p2 = types.ModuleType('rpy2.robjects.pandas2ri')
    p2.activate = lambda: None
    pk = types.ModuleType('rpy2.robjects.packages')
    pk.importr = importr
    pk.PackageNotInstalledError = PackageNotInstalledError
    ro.numpy2ri, ro.pandas2ri, ro.packages = n2, p2, pk
    rpy2.robjects = ro
    sys.modules.update({'rpy2': rpy2, 'rpy2.robjects': ro, 'rpy2.robjects.numpy2ri': n2,
                        'rpy2.robjects.pandas2ri': p2, 'rpy2.robjects.packages': pk})
