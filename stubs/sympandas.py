"""Minimal pandas stand-in for the symbolic twin (only what drf/code.py and sempler/semi.py use):
DataFrame(data) over a shim array, .shape, .iloc[rows, cols], .apply(fn), .to_numpy(), Series."""
import types
import symnp as np


class Series:
    """only used as the argument of DataFrame.apply(pd.Series), which is the identity on numeric columns"""
    pass


class _ILoc:
    def __init__(self, df):
        self._df = df

    def __getitem__(self, key):
        return self._df._a[key]


class DataFrame:
    def __init__(self, data=None):
        if isinstance(data, DataFrame):
            a = data._a.copy()
        else:
            a = np.array(data) if not isinstance(data, np.ndarray) else data.copy()
            if a.ndim == 1:
                a = a.reshape(-1, 1)
            elif a.ndim != 2:
                np._unsupported("DataFrame from %d-d data" % a.ndim)
        self._a = a

    @property
    def shape(self):
        return self._a.shape

    @property
    def iloc(self):
        return _ILoc(self)

    def apply(self, fn, axis=0):
        if fn is Series:
            return self
        cols = [fn(self._a[:, j]) for j in range(self._a.shape[1])]
        out = np.zeros(self._a.shape, dtype=float)
        for j, c in enumerate(cols):
            out[:, j] = c
        return DataFrame(out)

    def to_numpy(self):
        return self._a.copy()

    def __len__(self):
        return self._a.shape[0]


def modules():
    m = types.ModuleType('pandas')
    m.DataFrame = DataFrame
    m.Series = Series
    return {'pandas': m}
