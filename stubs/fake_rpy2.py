"""Stand-in for rpy2 + the R packages 'base' and 'drf' (the environment of drf/code.py).

The R forest is replaced by a nondeterministic stub constrained only by its contract:
predict_drf(fit, newdata) returns [weights, Y_train] where every row of `weights` is a vector of
non-negative reals that sums to 1 and is an UNINTERPRETED function of (the fit, the training-row
index, the values of the query row) - so equal queries to the same fit give equal weights and
nothing else is assumed.  Every fit and every prediction is logged for the oracle."""
import types
import z3
import symnp as np
from symx.core import SV, Poly, ATOMS, engine

FITS = []        # dict(id, X (shim array), Y (shim array), params)
PREDICTS = []    # dict(fit, newdata (shim array), weights)


def reset():
    del FITS[:]
    del PREDICTS[:]


class PackageNotInstalledError(Exception):
    pass


class _Fit:
    variable_importance = None

    def __init__(self, fid):
        self.fid = fid


def _arr(x):
    if hasattr(x, '_a'):
        return x._a
    return np.asarray(x)


class _DrfPackage:
    def drf(self, X_r, Y_r, **params):
        fid = len(FITS)
        FITS.append(dict(id=fid, X=_arr(X_r).copy(), Y=_arr(Y_r).copy(), params=dict(params)))
        return _Fit(fid)

    def predict_drf(self, fit, newdata_r):
        nd = _arr(newdata_r)
        rec = FITS[fit.fid]
        ntrain = rec['Y'].shape[0]
        m, k = nd.shape
        e = engine()
        f = z3.Function('forest_w_%d' % k, *([z3.IntSort(), z3.IntSort()] + [z3.RealSort()] * k + [z3.RealSort()]))
        rows = []
        for r in range(m):
            q = []
            for c in range(k):
                v = nd[r, c]
                q.append(v.zterm() if isinstance(v, SV) else z3.RealVal(str(np.Fraction(v))))
            ws = [SV(Poly.atom(ATOMS.get(f(z3.IntVal(fit.fid), z3.IntVal(t), *q))), None, False) for t in range(ntrain)]
            tot = 0
            for w in ws:
                e.assume(w >= 0)
                tot = tot + w
            e.assume(tot == 1)
            rows.append(ws)
        W = np.ndarray._new([w for row in rows for w in row], (m, ntrain), 'float')
        PREDICTS.append(dict(fit=fit.fid, newdata=nd.copy(), weights=W))
        return [W, rec['Y'].copy()]

    def print_drf(self, fit):
        return None

    def variableImportance(self, fit):
        return None


class _BasePackage:
    def as_matrix(self, x):
        return _arr(x)


def importr(name):
    if name == 'base':
        return _BasePackage()
    if name == 'drf':
        return _DrfPackage()
    raise PackageNotInstalledError(name)


def modules():
    rpy2 = types.ModuleType('rpy2')
    ro = types.ModuleType('rpy2.robjects')
    conv = types.SimpleNamespace(py2rpy=lambda x: x, rpy2py=lambda x: x)
    ro.conversion = conv
    ro.r = lambda *a, **k: None
    n2 = types.ModuleType('rpy2.robjects.numpy2ri')
    n2.activate = lambda: None
    p2 = types.ModuleType('rpy2.robjects.pandas2ri')
    p2.activate = lambda: None
    pk = types.ModuleType('rpy2.robjects.packages')
    pk.importr = importr
    pk.PackageNotInstalledError = PackageNotInstalledError
    ro.numpy2ri = n2
    ro.pandas2ri = p2
    ro.packages = pk
    rpy2.robjects = ro
    return {'rpy2': rpy2, 'rpy2.robjects': ro, 'rpy2.robjects.numpy2ri': n2, 'rpy2.robjects.pandas2ri': p2,
            'rpy2.robjects.packages': pk}
