"""contract stubs for numpy.linalg: exact (rational-function) linear algebra.
inv(M) = adj(M)/det(M) with `det(M) != 0` decided on the path (numpy raises
LinAlgError("Singular matrix") otherwise).  Floating-point rounding inside
LAPACK is outside every claim."""
import symnp as np
from symx.core import is_sym, engine


class LinAlgError(ValueError):
    pass


def _is_zero(x):
    return (not is_sym(x)) and x == 0


def _minor_det(M, rows, cols, memo):
    """determinant of the sub-matrix (rows x cols tuples) by Laplace expansion"""
    key = (rows, cols)
    v = memo.get(key)
    if v is not None:
        return v
    n = len(rows)
    if n == 0:
        v = 1
    elif n == 1:
        v = M[rows[0]][cols[0]]
    else:
        r = rows[0]
        rest = rows[1:]
        v = 0
        sign = 1
        for k, c in enumerate(cols):
            x = M[r][c]
            if not _is_zero(x):
                sub = _minor_det(M, rest, cols[:k] + cols[k + 1:], memo)
                if not _is_zero(sub):
                    v = v + (x * sub if sign > 0 else -(x * sub))
            sign = -sign
    memo[key] = v
    return v


def _as_rows(a):
    a = np.asarray(a)
    if a.ndim != 2 or a.shape[0] != a.shape[1]:
        raise LinAlgError("Last 2 dimensions of the array must be square")
    n = a.shape[0]
    f = a._flat()
    return [[f[i * n + j] for j in range(n)] for i in range(n)], n


def det(a):
    M, n = _as_rows(a)
    idx = tuple(range(n))
    d = _minor_det(M, idx, idx, {})
    return np._cast(d, 'float')


def inv(a):
    M, n = _as_rows(a)
    idx = tuple(range(n))
    memo = {}
    d = _minor_det(M, idx, idx, memo)
    if bool(d == 0):
        raise LinAlgError("Singular matrix")
    invd = 1 / np._cast(d, 'float')
    out = []
    for i in range(n):
        for j in range(n):
            # inverse[i][j] = cofactor(j, i) / det
            rows = idx[:j] + idx[j + 1:]
            cols = idx[:i] + idx[i + 1:]
            c = _minor_det(M, rows, cols, memo)
            if (i + j) % 2 == 1:
                c = -c
            if _is_zero(c):
                out.append(0.0)
            else:
                out.append(np._cast(c * invd, 'float'))
    return np.ndarray._new(out, (n, n), 'float')


def solve(a, b):
    b = np.asarray(b)
    ai = inv(a)
    if b.ndim not in (1, 2) or b.shape[0] != ai.shape[0]:
        raise ValueError("solve: Input operand 1 has a mismatch in its core dimension 0")
    return ai @ b.astype('float')


def cholesky(a):
    """succeeds iff all leading principal minors are positive (decided by
    forking); the factor itself is built with engine sqrt atoms"""
    M, n = _as_rows(a)
    memo = {}
    for k in range(1, n + 1):
        idx = tuple(range(k))
        d = _minor_det(M, idx, idx, memo)
        if not bool(d > 0):
            raise LinAlgError("Matrix is not positive definite")
    # Cholesky-Banachiewicz
    L = [[0.0] * n for _ in range(n)]
    for i in range(n):
        for j in range(i + 1):
            s = M[i][j]
            for k in range(j):
                s = s - L[i][k] * L[j][k]
            if i == j:
                L[i][j] = np._sqrt1(s)
            else:
                L[i][j] = s / L[j][j]
    return np.array(L, dtype=float)


def matrix_rank(*a, **k):
    np._unsupported("matrix_rank")


def eig(*a, **k):
    np._unsupported("eig")


def norm(*a, **k):
    np._unsupported("norm")


def __getattr__(name):
    """a numpy feature the shim does not model: the check that needs it is INCONCLUSIVE (exit 2), never a verdict;
    names that numpy itself does not have are ordinary AttributeErrors"""
    import importlib
    try:
        real = importlib.import_module("numpy.linalg")
    except Exception:
        real = None
    if name.startswith('_') or real is None or not hasattr(real, name):
        raise AttributeError("module %r has no attribute %r" % ("numpy.linalg", name))
    import symnp as _np
    _np._unsupported("numpy.linalg.%s" % name)
