"""symnp -- the subset of numpy used by sempler, in pure Python, generic over
the element type: elements are Python scalars or symx symbolic scalars.

Nothing here forks: vectorised expressions build terms; only Python-level
truth tests / indexing in the code under test reach the engine (through
SB.__bool__ / SV.__index__).
"""
import itertools
import operator
import builtins
from fractions import Fraction

from symx.core import SV, SB, is_sym, sb_and, sb_or, Inconclusive, engine

newaxis = None
inf = float('inf')
nan = float('nan')
pi = 3.141592653589793


class UnsupportedNumpy(Inconclusive):
    pass


def _unsupported(what):
    raise UnsupportedNumpy("unsupported numpy feature: %s" % what)


class UFuncTypeError(TypeError):
    pass


class AxisError(ValueError, IndexError):
    pass


# dtype handling -------------------------------------------------------------
_ORDER = {'bool': 0, 'int': 1, 'float': 2, 'object': 3}


class _DType:
    def __init__(self, name):
        self.name = name
        self.kind = {'bool': 'b', 'int': 'i', 'float': 'f', 'object': 'O'}[name]

    def __eq__(self, o):
        try:
            return _dt(o) == self.name
        except Exception:
            return False

    def __ne__(self, o):
        return not self.__eq__(o)

    def __hash__(self):
        return hash(self.name)

    def __repr__(self):
        return "dtype('%s')" % {'bool': 'bool', 'int': 'int64', 'float': 'float64', 'object': 'O'}[self.name]

    def __call__(self, x=0):
        return _cast(x, self.name)


class npinteger:
    """a numpy integer SCALAR as a caller may pass it (e.g. `for seed in np.arange(3)`): behaves like an integer but
    is NOT an instance of Python's int.  Only created by harnesses; the value may be symbolic."""
    __slots__ = ('v',)

    def __init__(self, v):
        self.v = v.v if isinstance(v, npinteger) else v

    def __index__(self): return operator.index(self.v)
    def __int__(self): return int(self.v)
    def __bool__(self): return bool(self.v != 0)
    def __hash__(self): return hash(self.v)
    def __eq__(self, o): return self.v == (o.v if isinstance(o, npinteger) else o)
    def __ne__(self, o): return self.v != (o.v if isinstance(o, npinteger) else o)
    def __lt__(self, o): return self.v < (o.v if isinstance(o, npinteger) else o)
    def __le__(self, o): return self.v <= (o.v if isinstance(o, npinteger) else o)
    def __gt__(self, o): return self.v > (o.v if isinstance(o, npinteger) else o)
    def __ge__(self, o): return self.v >= (o.v if isinstance(o, npinteger) else o)
    def __add__(self, o): return npinteger(self.v + (o.v if isinstance(o, npinteger) else o))
    __radd__ = __add__
    def __sub__(self, o): return npinteger(self.v - (o.v if isinstance(o, npinteger) else o))
    def __mul__(self, o): return npinteger(self.v * (o.v if isinstance(o, npinteger) else o))
    __rmul__ = __mul__
    def __deepcopy__(self, memo): return self
    def __copy__(self): return self
    def __repr__(self): return "np.int64(%r)" % (self.v,)


bool_ = _DType('bool')
int64 = _DType('int')
int_ = int64
int32 = int64
intp = int64
byte = int64
int8 = int64
float64 = _DType('float')
float_ = float64
float32 = float64
double = float64
object_ = _DType('object')


def _dt(d):
    """normalise a dtype specification to 'bool'|'int'|'float'|'object'"""
    if d is None:
        return None
    if isinstance(d, _DType):
        return d.name
    if d is bool or d == 'bool':
        return 'bool'
    if d is int or d in ('int', 'int64', 'i8', 'int32', 'byte', 'int8'):
        return 'int'
    if d is float or d in ('float', 'float64', 'f8', 'double'):
        return 'float'
    if d is object or d in ('object', 'O'):
        return 'object'
    _unsupported("dtype %r" % (d,))


def dtype(d):
    return _DType(_dt(d))


def _scalar_dt(v):
    t = type(v)
    if t is bool or t is SB:
        return 'bool'
    if t is int:
        return 'int'
    if t is float or t is Fraction:
        return 'float'
    if t is SV:
        return 'int' if v.isint else 'float'
    return 'object'


def _cast(v, dt):
    """cast a scalar to dtype dt with numpy's rules"""
    t = type(v)
    if dt == 'float':
        if t is float:
            return v
        if t is int or t is bool:
            return float(v)
        if t is SV:
            if v.q is None and v.p.is_const():
                return float(v.p.const_value())
            return v.asreal() if v.isint else v
        if t is SB:
            return _cast(v.num(), 'float')
        if t is Fraction:
            return v
        if v is None:
            return nan
        if isinstance(v, ndarray) and v.size == 1:
            return _cast(v.item(), dt)
        raise TypeError("float() argument must be a string or a real number, not %r" % type(v).__name__)
    if dt == 'int':
        if t is int:
            return v
        if t is bool:
            return int(v)
        if t is float:
            if v != v or v in (inf, -inf):
                return -9223372036854775808
            return int(v)
        if t is Fraction:
            return int(v)
        if t is SV:
            if v.q is None and v.p.is_const():
                c = v.p.const_value()
                return int(c)
            return v if v.isint else v.trunc()
        if t is SB:
            return _cast(v.num(), 'int')
        if isinstance(v, ndarray) and v.size == 1:
            return _cast(v.item(), dt)
        raise TypeError("int() argument must be a string or a real number, not %r" % type(v).__name__)
    if dt == 'bool':
        if t is bool:
            return v
        if t is SB:
            c = engine().known(v.t)
            return v if c is None else c
        if t is SV:
            return v != 0
        if t in (int, float, Fraction):
            return v != 0
        return bool(v)
    return v


def _result_dt(a, b):
    return a if _ORDER[a] >= _ORDER[b] else b


# buffers ---------------------------------------------------------------------

class FrozenWrite(BaseException):
    """a write reached a buffer that the checker marked frozen (C14/C17)"""

    def __init__(self, owner):
        BaseException.__init__(self, "write to frozen buffer owned by %s" % (owner,))
        self.owner = owner


class Buffer:
    __slots__ = ('data', 'frozen', 'owner', 'writes')

    def __init__(self, data, owner=None):
        self.data = data
        self.frozen = False
        self.owner = owner
        self.writes = 0


def _prod(shape):
    n = 1
    for s in shape:
        n *= s
    return n


def _cstrides(shape):
    st = []
    acc = 1
    for s in reversed(shape):
        st.append(acc)
        acc *= s
    return tuple(reversed(st))


def _offsets(off, shape, strides):
    """flat buffer offsets of all elements in C order"""
    nd = len(shape)
    if nd == 0:
        return [off]
    if nd == 1:
        s = strides[0]
        return [off + i * s for i in range(shape[0])]
    if nd == 2:
        s0, s1 = strides
        n1 = shape[1]
        return [off + i * s0 + j * s1 for i in range(shape[0]) for j in range(n1)]
    outs = [off]
    for n, s in zip(shape, strides):
        outs = [o + i * s for o in outs for i in range(n)]
    return outs


def _index(i):
    """concrete python int from an index element (forks if symbolic)"""
    if type(i) is int:
        return i
    if type(i) is bool:
        raise IndexError("boolean scalar index is not supported by the shim")
    return operator.index(i)


class ndarray:
    __array_priority__ = 100
    __slots__ = ('buf', 'off', 'shape', 'strides', 'dt')
    __hash__ = None

    def __init__(self, buf, off, shape, strides, dt):
        self.buf = buf
        self.off = off
        self.shape = shape
        self.strides = strides
        self.dt = dt

    # ---- construction helpers
    @staticmethod
    def _new(flat, shape, dt):
        return ndarray(Buffer(flat), 0, tuple(shape), _cstrides(shape), dt)

    def _flat(self):
        d = self.buf.data
        return [d[o] for o in _offsets(self.off, self.shape, self.strides)]

    # ---- attributes
    @property
    def dtype(self):
        return _DType(self.dt)

    @property
    def ndim(self):
        return len(self.shape)

    @property
    def size(self):
        return _prod(self.shape)

    @property
    def T(self):
        return ndarray(self.buf, self.off, self.shape[::-1], self.strides[::-1], self.dt)

    @property
    def base(self):
        return self.buf

    @property
    def flat(self):
        return iter(self._flat())

    def transpose(self, *axes):
        if not axes or axes == (None,):
            return self.T
        if len(axes) == 1 and isinstance(axes[0], (tuple, list)):
            axes = tuple(axes[0])
        return ndarray(self.buf, self.off, tuple(self.shape[a] for a in axes),
                       tuple(self.strides[a] for a in axes), self.dt)

    def __len__(self):
        if not self.shape:
            raise TypeError("len() of unsized object")
        return self.shape[0]

    def __iter__(self):
        if not self.shape:
            raise TypeError("iteration over a 0-d array")
        for i in range(self.shape[0]):
            yield self[i]

    def __bool__(self):
        n = self.size
        if n == 1:
            return bool(self._flat()[0])
        if n == 0:
            return False
        raise ValueError("The truth value of an array with more than one element is ambiguous. Use a.any() or a.all()")

    def __index__(self):
        if self.size == 1 and self.dt == 'int':
            return _index(self._flat()[0])
        raise TypeError("only integer scalar arrays can be converted to a scalar index")

    def __int__(self):
        if self.size == 1:
            return int(self._flat()[0])
        raise TypeError("only length-1 arrays can be converted to Python scalars")

    def __float__(self):
        if self.size == 1:
            return float(self._flat()[0])
        raise TypeError("only length-1 arrays can be converted to Python scalars")

    def item(self, *a):
        if a:
            return self[a if len(a) > 1 else a[0]]
        if self.size != 1:
            raise ValueError("can only convert an array of size 1 to a Python scalar")
        return self._flat()[0]

    def tolist(self):
        if not self.shape:
            return self._flat()[0]
        if len(self.shape) == 1:
            return self._flat()
        return [x.tolist() for x in self]

    def __repr__(self):
        return "symnp.array(%r, dtype=%s)" % (self.tolist(), self.dt)

    def __deepcopy__(self, memo):
        return self.copy()

    def __copy__(self):
        return self.copy()

    def __contains__(self, v):
        return bool(sb_or([x == v for x in self._flat()]))

    # ---- copies / casts
    def copy(self, order='C'):
        return ndarray._new(self._flat(), self.shape, self.dt)

    def astype(self, d, copy=True):
        d = _dt(d)
        if d == self.dt:
            return self.copy() if copy else self
        return ndarray._new([_cast(v, d) for v in self._flat()], self.shape, d)

    def reshape(self, *shape, order='C'):
        if len(shape) == 1 and isinstance(shape[0], (tuple, list)):
            shape = tuple(shape[0])
        shape = [_index(s) for s in shape]
        n = self.size
        if -1 in shape:
            k = shape.index(-1)
            rest = _prod([s for s in shape if s != -1])
            shape[k] = n // rest if rest else 0
        if _prod(shape) != n:
            raise ValueError("cannot reshape array of size %d into shape %s" % (n, tuple(shape)))
        if self.strides == _cstrides(self.shape):
            return ndarray(self.buf, self.off, tuple(shape), _cstrides(shape), self.dt)
        return ndarray._new(self._flat(), tuple(shape), self.dt)

    def flatten(self):
        return ndarray._new(self._flat(), (self.size,), self.dt)

    def ravel(self):
        return self.reshape(-1)

    def fill(self, v):
        self[...] = v

    # ---- indexing
    def _plan(self, key):
        """returns ('view', off, shape, strides) for basic indexing or
        ('adv', offsets, shape) for advanced indexing"""
        if not isinstance(key, tuple):
            key = (key,)
        # expand boolean masks / lists / ellipsis
        items = []
        for k in key:
            if isinstance(k, list) or isinstance(k, range):
                k = array(k) if len(k) > 0 else ndarray._new([], (0,), 'int')
            if isinstance(k, ndarray):
                if k.dt == 'bool':
                    if k.ndim == 0:
                        _unsupported("0-d boolean index")
                    nz = nonzero(k)
                    items.append(('mask', nz, k.shape))
                elif k.dt in ('int',):
                    items.append(('arr', k))
                else:
                    raise IndexError("arrays used as indices must be of integer (or boolean) type")
            elif isinstance(k, slice):
                items.append(('slice', k))
            elif k is Ellipsis:
                items.append(('ellipsis',))
            elif k is None:
                items.append(('new',))
            elif isinstance(k, SB) or type(k) is bool:
                _unsupported("boolean scalar index")
            elif isinstance(k, tuple):
                items.append(('arr', array(k)))
            else:
                items.append(('int', _index(k)))
        # count consumed dims
        consumed = 0
        for it in items:
            if it[0] in ('int', 'slice', 'arr'):
                consumed += 1
            elif it[0] == 'mask':
                consumed += len(it[2])
        nd = len(self.shape)
        if consumed > nd:
            raise IndexError("too many indices for array: array is %d-dimensional, but %d were indexed" % (nd, consumed))
        # expand ellipsis / pad with full slices
        exp = []
        seen_ell = False
        for it in items:
            if it[0] == 'ellipsis':
                if seen_ell:
                    raise IndexError("an index can only have a single ellipsis")
                seen_ell = True
                exp.extend([('slice', slice(None))] * (nd - consumed))
            else:
                exp.append(it)
        if not seen_ell:
            exp.extend([('slice', slice(None))] * (nd - consumed))
        # check masks shapes & flatten masks to index arrays
        flat_items = []
        dim = 0
        for it in exp:
            if it[0] == 'mask':
                nz, mshape = it[1], it[2]
                for a, ms in zip(nz, mshape):
                    if ms != self.shape[dim]:
                        raise IndexError("boolean index did not match indexed array along axis %d; size of axis is %d but size of corresponding boolean axis is %d" % (dim, self.shape[dim], ms))
                    flat_items.append(('arr', a))
                    dim += 1
            elif it[0] == 'new':
                flat_items.append(it)
            else:
                flat_items.append(it)
                dim += 1
        has_adv = builtins.any(it[0] == 'arr' for it in flat_items)
        if not has_adv:
            off = self.off
            shape = []
            strides = []
            dim = 0
            for it in flat_items:
                if it[0] == 'new':
                    shape.append(1)
                    strides.append(0)
                    continue
                n = self.shape[dim]
                st = self.strides[dim]
                if it[0] == 'int':
                    i = it[1]
                    if i < -n or i >= n:
                        raise IndexError("index %d is out of bounds for axis %d with size %d" % (i, dim, n))
                    if i < 0:
                        i += n
                    off += i * st
                else:
                    sl = it[1]
                    start, stop, step = slice(_sidx(sl.start), _sidx(sl.stop), _sidx(sl.step)).indices(n)
                    ln = len(range(start, stop, step))
                    off += start * st
                    shape.append(ln)
                    strides.append(st * step)
                dim += 1
            return ('view', off, tuple(shape), tuple(strides))
        # advanced indexing: ints take part in broadcasting
        adv_pos = [i for i, it in enumerate(flat_items) if it[0] in ('arr', 'int')]
        contiguous = builtins.all(flat_items[i][0] in ('arr', 'int') for i in range(adv_pos[0], adv_pos[-1] + 1))
        # broadcast shape of index arrays
        bshape = ()
        for i in adv_pos:
            it = flat_items[i]
            if it[0] == 'arr':
                bshape = _broadcast_shapes(bshape, it[1].shape)
        nb = _prod(bshape)
        # per advanced dim: list of nb concrete indices
        dim = 0
        adv_lists = []   # (stride, [indices])
        slice_dims = []  # (position in flat_items, list of offsets contributions, length)
        pre_slices = []
        post_slices = []
        base = self.off
        for pos, it in enumerate(flat_items):
            if it[0] == 'new':
                _unsupported("newaxis together with advanced indexing")
            n = self.shape[dim]
            st = self.strides[dim]
            if it[0] == 'int':
                i = it[1]
                if i < -n or i >= n:
                    raise IndexError("index %d is out of bounds for axis %d with size %d" % (i, dim, n))
                if i < 0:
                    i += n
                base += i * st
            elif it[0] == 'arr':
                vals = _broadcast_flat(it[1], bshape)
                lst = []
                for v in vals:
                    i = _index(v)
                    if i < -n or i >= n:
                        raise IndexError("index %d is out of bounds for axis %d with size %d" % (i, dim, n))
                    if i < 0:
                        i += n
                    lst.append(i * st)
                adv_lists.append(lst)
            else:
                sl = it[1]
                start, stop, step = slice(_sidx(sl.start), _sidx(sl.stop), _sidx(sl.step)).indices(n)
                contrib = [i * st for i in range(start, stop, step)]
                if contiguous and pos > adv_pos[-1]:
                    post_slices.append(contrib)
                elif contiguous and pos < adv_pos[0]:
                    pre_slices.append(contrib)
                else:
                    post_slices.append(contrib)  # non-contiguous: adv dims first
            dim += 1
        adv_offs = [builtins.sum(l[k] for l in adv_lists) for k in range(nb)]
        if not contiguous:
            pre_slices = []
        shape = tuple(len(c) for c in pre_slices) + tuple(bshape) + tuple(len(c) for c in post_slices)
        offs = [base]
        for c in pre_slices:
            offs = [o + x for o in offs for x in c]
        offs = [o + x for o in offs for x in adv_offs]
        for c in post_slices:
            offs = [o + x for o in offs for x in c]
        return ('adv', offs, shape)

    def __getitem__(self, key):
        plan = self._plan(key)
        if plan[0] == 'view':
            _, off, shape, strides = plan
            if not shape:
                return self.buf.data[off]
            return ndarray(self.buf, off, shape, strides, self.dt)
        _, offs, shape = plan
        d = self.buf.data
        if not shape:
            return d[offs[0]]
        return ndarray._new([d[o] for o in offs], shape, self.dt)

    def __setitem__(self, key, value):
        plan = self._plan(key)
        if plan[0] == 'view':
            _, off, shape, strides = plan
            offs = _offsets(off, shape, strides)
        else:
            _, offs, shape = plan
        buf = self.buf
        if buf.frozen:
            raise FrozenWrite(buf.owner)
        buf.writes += 1
        d = buf.data
        dt = self.dt
        if isinstance(value, ndarray):
            if value.buf is buf:
                value = value.copy()
            vals = _broadcast_flat(value, shape, assign=True)
        elif isinstance(value, (list, tuple, range)) or hasattr(value, '__next__'):
            vals = _broadcast_flat(array(value), shape, assign=True)
        elif type(value).__name__ in ('DataFrame', 'Series'):
            vals = _broadcast_flat(value.to_numpy(), shape, assign=True)
        else:
            v = _cast(value, dt)
            for o in offs:
                d[o] = v
            return
        if dt == 'object':
            for o, v in zip(offs, vals):
                d[o] = v
        else:
            for o, v in zip(offs, vals):
                d[o] = _cast(v, dt)

    # ---- elementwise operators
    def _bin(self, o, f, kind, reflected=False):
        if isinstance(o, (list, tuple)):
            o = array(o)
        if isinstance(o, ndarray):
            oshape, oflat, odt = o.shape, None, o.dt
        elif o is None or isinstance(o, (str, dict, set)):
            return NotImplemented
        else:
            oshape, odt = (), _scalar_dt(o)
            if odt == 'object':
                return NotImplemented
        sdt = self.dt
        if isinstance(o, ndarray):
            rdt = _result_dt(sdt, odt)
        else:
            # python / symbolic scalars: weak promotion
            if _ORDER[odt] > _ORDER[sdt]:
                rdt = odt
            else:
                rdt = sdt
        if self.shape == oshape:
            a = self._flat()
            b = o._flat()
            shape = self.shape
        elif oshape == ():
            a = self._flat()
            ov = o._flat()[0] if isinstance(o, ndarray) else o
            b = [ov] * len(a)
            shape = self.shape
        else:
            shape = _broadcast_shapes(self.shape, oshape)
            a = _broadcast_flat(self, shape)
            b = _broadcast_flat(o, shape)
        if reflected:
            a, b = b, a
        if kind == 'sub' and rdt == 'bool':
            raise TypeError("numpy boolean subtract, the `-` operator, is not supported, use the bitwise_xor, the `^` operator, or the logical_xor function instead.")
        if kind == 'cmp':
            out = [f(x, y) for x, y in zip(a, b)]
            return ndarray._new(out, shape, 'bool')
        if kind == 'div':
            out = [f(_cast(x, 'float'), _cast(y, 'float')) for x, y in zip(a, b)]
            return ndarray._new(out, shape, 'float')
        if kind == 'logic':
            out = [f(x, y) for x, y in zip(a, b)]
            return ndarray._new(out, shape, rdt)
        if rdt == 'bool':
            if kind == 'add':
                return ndarray._new([_lor(x, y) for x, y in zip(a, b)], shape, 'bool')
            if kind == 'mul':
                return ndarray._new([_land(x, y) for x, y in zip(a, b)], shape, 'bool')
            if kind == 'sub':
                raise TypeError("numpy boolean subtract, the `-` operator, is not supported")
            rdt = 'int'
        if rdt in ('int', 'float'):
            out = [_cast(f(_cast(x, rdt), _cast(y, rdt)), rdt) if kind != 'pow' else f(_cast(x, rdt), y)
                   for x, y in zip(a, b)]
        else:
            out = [f(x, y) for x, y in zip(a, b)]
        return ndarray._new(out, shape, rdt)

    def __add__(self, o): return self._bin(o, operator.add, 'add')
    def __radd__(self, o): return self._bin(o, operator.add, 'add', True)
    def __sub__(self, o): return self._bin(o, operator.sub, 'sub')
    def __rsub__(self, o): return self._bin(o, operator.sub, 'sub', True)
    def __mul__(self, o): return self._bin(o, operator.mul, 'mul')
    def __rmul__(self, o): return self._bin(o, operator.mul, 'mul', True)
    def __truediv__(self, o): return self._bin(o, _truediv, 'div')
    def __rtruediv__(self, o): return self._bin(o, _truediv, 'div', True)
    def __floordiv__(self, o): return self._bin(o, operator.floordiv, 'arith')
    def __mod__(self, o): return self._bin(o, operator.mod, 'arith')
    def __pow__(self, o): return self._bin(o, operator.pow, 'pow')
    def __eq__(self, o):
        r = self._bin(o, operator.eq, 'cmp')
        return False if r is NotImplemented else r
    def __ne__(self, o):
        r = self._bin(o, operator.ne, 'cmp')
        return True if r is NotImplemented else r
    def __lt__(self, o): return self._bin(o, operator.lt, 'cmp')
    def __le__(self, o): return self._bin(o, operator.le, 'cmp')
    def __gt__(self, o): return self._bin(o, operator.gt, 'cmp')
    def __ge__(self, o): return self._bin(o, operator.ge, 'cmp')
    def __and__(self, o): return self._bin(o, _land, 'logic')
    def __rand__(self, o): return self._bin(o, _land, 'logic', True)
    def __or__(self, o): return self._bin(o, _lor, 'logic')
    def __ror__(self, o): return self._bin(o, _lor, 'logic', True)
    def __xor__(self, o): return self._bin(o, operator.xor, 'logic')

    def __neg__(self):
        if self.dt == 'bool':
            raise TypeError("The numpy boolean negative, the `-` operator, is not supported")
        return ndarray._new([-x for x in self._flat()], self.shape, self.dt)

    def __pos__(self):
        return self.copy()

    def __abs__(self):
        return ndarray._new([builtins.abs(x) for x in self._flat()], self.shape, self.dt)

    def __invert__(self):
        if self.dt != 'bool':
            _unsupported("~ on non-bool array")
        return ndarray._new([_lnot(x) for x in self._flat()], self.shape, 'bool')

    def __matmul__(self, o):
        return matmul(self, o)

    def __rmatmul__(self, o):
        return matmul(o, self)

    def dot(self, o):
        return dot(self, o)

    # in-place: numpy's same_kind casting rule
    def _inplace(self, o, name):
        r = getattr(self, name)(o)
        if r is NotImplemented:
            raise TypeError("unsupported operand")
        if _ORDER[r.dt] > _ORDER[self.dt] and not (r.dt == 'int' and self.dt == 'bool' and False):
            if r.dt != 'object' or self.dt != 'object':
                raise UFuncTypeError("Cannot cast ufunc output from dtype('%s') to dtype('%s') with casting rule 'same_kind'"
                                     % (_DType(r.dt), _DType(self.dt)))
        self[...] = r
        return self

    def __iadd__(self, o): return self._inplace(o, '__add__')
    def __isub__(self, o): return self._inplace(o, '__sub__')
    def __imul__(self, o): return self._inplace(o, '__mul__')
    def __itruediv__(self, o): return self._inplace(o, '__truediv__')
    def __ior__(self, o): return self._inplace(o, '__or__')
    def __iand__(self, o): return self._inplace(o, '__and__')

    # ---- reductions
    def _reduce(self, f, axis, init, rdt):
        if axis is None:
            acc = init
            for x in self._flat():
                acc = f(acc, x)
            return acc
        axis = _index(axis)
        nd = len(self.shape)
        if axis < -nd or axis >= nd:
            raise AxisError("axis %d is out of bounds for array of dimension %d" % (axis, nd))
        if axis < 0:
            axis += nd
        oshape = self.shape[:axis] + self.shape[axis + 1:]
        ostr = self.strides[:axis] + self.strides[axis + 1:]
        n, st = self.shape[axis], self.strides[axis]
        d = self.buf.data
        out = []
        for o in _offsets(self.off, oshape, ostr):
            acc = init
            for i in range(n):
                acc = f(acc, d[o + i * st])
            out.append(acc)
        if not oshape:
            return out[0]
        return ndarray._new(out, oshape, rdt)

    def sum(self, axis=None, dtype=None, keepdims=False):
        if self.dt == 'bool':
            return self.astype('int').sum(axis)
        init = 0 if self.dt in ('int', 'object') else 0.0
        return self._reduce(operator.add, axis, init, self.dt)

    def prod(self, axis=None):
        init = 1 if self.dt in ('int', 'bool') else 1.0
        return self._reduce(operator.mul, axis, init, 'int' if self.dt == 'bool' else self.dt)

    def any(self, axis=None):
        if axis is None:
            return sb_or(self._flat())
        return self.astype('bool')._reduce(_lor, axis, False, 'bool')

    def all(self, axis=None):
        if axis is None:
            return sb_and(self._flat())
        return self.astype('bool')._reduce(_land, axis, True, 'bool')

    def max(self, axis=None):
        if self.size == 0:
            raise ValueError("zero-size array to reduction operation maximum which has no identity")
        if axis is None:
            return _max(self._flat())
        _unsupported("max with axis")

    def min(self, axis=None):
        if self.size == 0:
            raise ValueError("zero-size array to reduction operation minimum which has no identity")
        if axis is None:
            return _min(self._flat())
        _unsupported("min with axis")

    def mean(self, axis=None):
        n = self.size if axis is None else self.shape[axis]
        return self.sum(axis) / n

    def argmax(self, axis=None):
        return argmax(self, axis)

    def argmin(self, axis=None):
        return argmin(self, axis)

    def nonzero(self):
        return nonzero(self)

    def argsort(self):
        return argsort(self)

    def repeat(self, n, axis=None):
        return repeat(self, n, axis)

    def squeeze(self, axis=None):
        shape = tuple(s_ for s_ in self.shape if s_ != 1)
        return self.reshape(shape)

    def cumsum(self):
        return cumsum(self)

    def round(self, decimals=0):
        return round_(self, decimals)

    def clip(self, lo=None, hi=None):
        def f(x):
            if lo is not None and bool(x < lo):
                return lo
            if hi is not None and bool(x > hi):
                return hi
            return x
        return ndarray._new([f(x) for x in self._flat()], self.shape, self.dt)

    def var(self, axis=None):
        if axis is not None:
            _unsupported("var with axis")
        f = self._flat()
        m = builtins.sum(f) / len(f)
        return builtins.sum((x - m) * (x - m) for x in f) / len(f)

    def std(self, axis=None):
        return _sqrt1(self.var(axis))

    def swapaxes(self, a, b):
        ax = list(range(self.ndim))
        ax[a], ax[b] = ax[b], ax[a]
        return self.transpose(ax)


def _sidx(x):
    return None if x is None else _index(x)


def _truediv(a, b):
    if not is_sym(b) and b == 0:
        if is_sym(a):
            raise Inconclusive("symbolic value divided by concrete zero")
        if a == 0 or a != a:
            return nan
        return inf if a > 0 else -inf
    return a / b


def _land(a, b):
    a = _cast(a, 'bool')
    b = _cast(b, 'bool')
    if a is True:
        return b
    if a is False:
        return False
    return a & b


def _lor(a, b):
    a = _cast(a, 'bool')
    b = _cast(b, 'bool')
    if a is True:
        return True
    if a is False:
        return b
    return a | b


def _lnot(a):
    a = _cast(a, 'bool')
    if a is True:
        return False
    if a is False:
        return True
    return ~a


def _max(xs):
    m = xs[0]
    for x in xs[1:]:
        if x > m:
            m = x
    return m


def _min(xs):
    m = xs[0]
    for x in xs[1:]:
        if x < m:
            m = x
    return m


def _broadcast_shapes(a, b):
    out = []
    for i in range(1, builtins.max(len(a), len(b)) + 1):
        x = a[-i] if i <= len(a) else 1
        y = b[-i] if i <= len(b) else 1
        if x == y or y == 1:
            out.append(x)
        elif x == 1:
            out.append(y)
        else:
            raise ValueError("operands could not be broadcast together with shapes %s %s" % (a, b))
    return tuple(reversed(out))


def _broadcast_flat(arr, shape, assign=False):
    """flat list of arr's elements broadcast to `shape`"""
    if not isinstance(arr, ndarray):
        return [arr] * _prod(shape)
    ashape = arr.shape
    if ashape == tuple(shape):
        return arr._flat()
    if assign:
        # numpy drops leading length-1 dims of the value when assigning
        while len(ashape) > len(shape) and ashape[0] == 1:
            arr = arr[0]
            ashape = arr.shape
    if len(ashape) > len(shape):
        raise ValueError("could not broadcast input array from shape %s into shape %s" % (ashape, tuple(shape)))
    pad = len(shape) - len(ashape)
    strides = [0] * pad
    for s, t, st in zip(ashape, shape[pad:], arr.strides):
        if s == t:
            strides.append(st)
        elif s == 1:
            strides.append(0)
        else:
            raise ValueError("could not broadcast input array from shape %s into shape %s" % (ashape, tuple(shape)))
    d = arr.buf.data
    return [d[o] for o in _offsets(arr.off, tuple(shape), tuple(strides))]


# ---------------------------------------------------------------------------
# construction

def _is_seq(x):
    return isinstance(x, (list, tuple, range)) or (isinstance(x, ndarray) and x.ndim > 0)


def _shape_of(obj):
    if isinstance(obj, ndarray):
        return obj.shape
    if isinstance(obj, (list, tuple, range)):
        n = len(obj)
        if n == 0:
            return (0,)
        subs = [_shape_of(x) for x in obj]
        s0 = subs[0]
        for s in subs[1:]:
            if s != s0:
                return None if False else ('ragged',)
        if s0 == ('ragged',):
            return s0
        return (n,) + s0
    return ()


def _flatten_into(obj, out):
    if isinstance(obj, ndarray):
        out.extend(obj._flat())
    elif isinstance(obj, (list, tuple, range)):
        for x in obj:
            _flatten_into(x, out)
    else:
        out.append(obj)


def array(obj, dtype=None, copy=True, ndmin=0):
    dt = _dt(dtype)
    if isinstance(obj, ndarray):
        r = obj.copy() if dt is None or dt == obj.dt else obj.astype(dt)
    else:
        if hasattr(obj, '__next__') or isinstance(obj, (set, frozenset, dict)) or type(obj).__name__ in ('filter', 'map', 'zip', 'dict_values', 'dict_keys'):
            if isinstance(obj, (set, frozenset, dict)) or type(obj).__name__ in ('dict_values', 'dict_keys'):
                # numpy makes a 0-d object array of these
                return ndarray._new([obj], (), 'object')
            _unsupported("array() from iterator")
        if type(obj).__name__ in ('DataFrame', 'Series'):
            return obj.to_numpy().copy() if dt is None else obj.to_numpy().astype(dt)
        shape = _shape_of(obj)
        if shape == ('ragged',) or (len(shape) > 0 and 'ragged' in shape):
            raise ValueError("setting an array element with a sequence. The requested array has an inhomogeneous shape")
        flat = []
        _flatten_into(obj, flat)
        if dt is None:
            if not flat:
                # numpy: an empty array built from (nested sequences of) arrays keeps their dtype; from empty lists float
                sub = _first_array(obj)
                dt = sub.dt if sub is not None else 'float'
            else:
                dt = 'bool'
                for v in flat:
                    sd = _scalar_dt(v)
                    if _ORDER[sd] > _ORDER[dt]:
                        dt = sd
        if dt != 'object':
            flat = [_cast(v, dt) for v in flat]
        r = ndarray._new(flat, shape, dt)
    while r.ndim < ndmin:
        r = r.reshape((1,) + r.shape)
    return r


def _first_array(obj):
    if isinstance(obj, ndarray):
        return obj
    if isinstance(obj, (list, tuple)):
        for y in obj:
            r = _first_array(y)
            if r is not None:
                return r
    return None


def asarray(obj, dtype=None):
    if isinstance(obj, ndarray) and (dtype is None or _dt(dtype) == obj.dt):
        return obj
    return array(obj, dtype)


asanyarray = asarray


def _shape_arg(shape):
    if isinstance(shape, (tuple, list)):
        return tuple(_index(s) for s in shape)
    if isinstance(shape, ndarray):
        return tuple(_index(s) for s in shape._flat())
    return (_index(shape),)


def zeros(shape, dtype=float):
    dt = _dt(dtype)
    shape = _shape_arg(shape)
    for s in shape:
        if s < 0:
            raise ValueError("negative dimensions are not allowed")
    z = {'bool': False, 'int': 0, 'float': 0.0, 'object': 0}[dt]
    return ndarray._new([z] * _prod(shape), shape, dt)


def ones(shape, dtype=float):
    dt = _dt(dtype)
    shape = _shape_arg(shape)
    z = {'bool': True, 'int': 1, 'float': 1.0, 'object': 1}[dt]
    return ndarray._new([z] * _prod(shape), shape, dt)


def empty(shape, dtype=float):
    dt = _dt(dtype)
    if dt == 'object':
        shape = _shape_arg(shape)
        return ndarray._new([None] * _prod(shape), shape, dt)
    return zeros(shape, dtype)


def full(shape, v, dtype=None):
    shape = _shape_arg(shape)
    dt = _dt(dtype) or _scalar_dt(v)
    return ndarray._new([_cast(v, dt)] * _prod(shape), shape, dt)


def zeros_like(a, dtype=None):
    a = asarray(a)
    return zeros(a.shape, dtype if dtype is not None else a.dt)


def ones_like(a, dtype=None):
    a = asarray(a)
    return ones(a.shape, dtype if dtype is not None else a.dt)


def empty_like(a, dtype=None):
    return zeros_like(a, dtype)


def eye(n, dtype=float):
    n = _index(n)
    r = zeros((n, n), dtype)
    one = _cast(1, r.dt)
    for i in range(n):
        r.buf.data[i * n + i] = one
    return r


identity = eye


def arange(*a, dtype=None):
    vals = list(range(*[_index(x) for x in a]))
    return ndarray._new(vals, (len(vals),), 'int') if dtype is None else array(vals, dtype)


def diag(v, k=0):
    v = asarray(v)
    if k != 0:
        _unsupported("diag with k != 0")
    if v.ndim == 1:
        n = v.shape[0]
        r = zeros((n, n), v.dt)
        for i, x in enumerate(v._flat()):
            r.buf.data[i * n + i] = x
        return r
    if v.ndim == 2:
        n = builtins.min(v.shape)
        return array([v[i, i] for i in range(n)], v.dt)
    raise ValueError("Input must be 1- or 2-d.")


def triu(m, k=0):
    m = asarray(m)
    if m.ndim != 2:
        _unsupported("triu on non-2d")
    r = m.copy()
    z = _cast(0, r.dt)
    rows, cols = r.shape
    for i in range(rows):
        for j in range(cols):
            if j - i < k:
                r.buf.data[i * cols + j] = z
    return r


def tril(m, k=0):
    m = asarray(m)
    r = m.copy()
    z = _cast(0, r.dt)
    rows, cols = r.shape
    for i in range(rows):
        for j in range(cols):
            if j - i > k:
                r.buf.data[i * cols + j] = z
    return r


def atleast_1d(x):
    x = asarray(x)
    if x.ndim == 0:
        return x.reshape(1)
    return x


def atleast_2d(x):
    x = asarray(x)
    if x.ndim == 0:
        return x.reshape(1, 1)
    if x.ndim == 1:
        return x.reshape(1, x.shape[0])
    return x


def transpose(a, axes=None):
    a = asarray(a)
    return a.transpose(axes) if axes is not None else a.T


def copy(a):
    return asarray(a).copy()


def shape(a):
    return asarray(a).shape


def ndim(a):
    return asarray(a).ndim


def size(a):
    return asarray(a).size


def reshape(a, s):
    return asarray(a).reshape(s)


def ravel(a):
    return asarray(a).ravel()


def shares_memory(a, b):
    return isinstance(a, ndarray) and isinstance(b, ndarray) and a.buf is b.buf


may_share_memory = shares_memory


def hstack(arrs):
    arrs = [atleast_1d(a) for a in arrs]
    if builtins.all(a.ndim == 1 for a in arrs):
        flat = []
        dt = 'bool'
        for a in arrs:
            flat.extend(a._flat())
            dt = _result_dt(dt, a.dt)
        if builtins.all(a.size == 0 for a in arrs):
            dt = arrs[0].dt if arrs else 'float'
        return ndarray._new([_cast(v, dt) if dt != 'object' else v for v in flat], (len(flat),), dt)
    return concatenate(arrs, axis=1)


def vstack(arrs):
    return concatenate([atleast_2d(a) for a in arrs], axis=0)


def concatenate(arrs, axis=0):
    arrs = [asarray(a) for a in arrs]
    if axis == 0:
        rest = arrs[0].shape[1:]
        flat = []
        n = 0
        dt = 'bool'
        for a in arrs:
            if a.shape[1:] != rest:
                raise ValueError("all the input array dimensions except for the concatenation axis must match exactly")
            flat.extend(a._flat())
            n += a.shape[0]
            dt = _result_dt(dt, a.dt)
        return ndarray._new([_cast(v, dt) if dt != 'object' else v for v in flat], (n,) + rest, dt)
    if axis == 1:
        return concatenate([a.T for a in arrs], axis=0).T.copy()
    _unsupported("concatenate axis %r" % axis)


def stack(arrs, axis=0):
    if axis != 0:
        _unsupported("stack axis")
    return array(list(arrs))


def repeat(a, n, axis=None):
    a = asarray(a)
    n = _index(n)
    if axis is not None:
        _unsupported("repeat with axis")
    out = []
    for v in a._flat():
        out.extend([v] * n)
    return ndarray._new(out, (len(out),), a.dt)


def tile(a, n):
    a = asarray(a)
    if a.ndim != 1:
        _unsupported("tile nd")
    f = a._flat() * _index(n)
    return ndarray._new(f, (len(f),), a.dt)


# ---------------------------------------------------------------------------
# elementwise / logic

def _un(f, rdt=None):
    def g(a):
        if isinstance(a, ndarray):
            return ndarray._new([f(x) for x in a._flat()], a.shape, rdt or a.dt)
        if isinstance(a, (list, tuple)):
            return g(array(a))
        return f(a)
    return g


abs = absolute = _un(builtins.abs)
negative = _un(operator.neg)
logical_not = _un(_lnot, 'bool')


def _sqrt1(x):
    if is_sym(x):
        return x ** 0.5
    return x ** 0.5 if x >= 0 else nan


sqrt = _un(_sqrt1, 'float')


def _mathfn(name):
    import math

    def f(x):
        if is_sym(x):
            raise Inconclusive("np.%s of a symbolic value" % name)
        return getattr(math, name)(x)
    return _un(f, 'float')


exp = _mathfn('exp')
log = _mathfn('log')
sin = _mathfn('sin')
cos = _mathfn('cos')
tanh = _mathfn('tanh')


def isnan(a):
    return _un(lambda x: (not is_sym(x)) and x != x, 'bool')(a)


def isinf(a):
    return _un(lambda x: (not is_sym(x)) and x in (inf, -inf), 'bool')(a)


def isfinite(a):
    return _un(lambda x: is_sym(x) or (x == x and x not in (inf, -inf)), 'bool')(a)


def _bin(name):
    def g(a, b):
        a = asarray(a)
        return getattr(a, name)(b)
    return g


add = _bin('__add__')
subtract = _bin('__sub__')
multiply = _bin('__mul__')
divide = true_divide = _bin('__truediv__')
equal = _bin('__eq__')
not_equal = _bin('__ne__')
less = _bin('__lt__')
greater = _bin('__gt__')
less_equal = _bin('__le__')
greater_equal = _bin('__ge__')
power = _bin('__pow__')


def logical_and(a, b):
    a, b = asarray(a), asarray(b)
    return a.astype('bool')._bin(b.astype('bool') if isinstance(b, ndarray) else b, _land, 'logic')


def logical_or(a, b):
    a, b = asarray(a), asarray(b)
    return a.astype('bool')._bin(b.astype('bool') if isinstance(b, ndarray) else b, _lor, 'logic')


def _ite(c, x, y):
    if c is True:
        return x
    if c is False:
        return y
    return x if bool(c) else y


def maximum(a, b):
    a = asarray(a)
    return a._bin(b, lambda x, y: x if _decide(x >= y) else y, 'arith')


def minimum(a, b):
    a = asarray(a)
    return a._bin(b, lambda x, y: x if _decide(x <= y) else y, 'arith')


def _decide(c):
    return bool(c)


def where(cond, *xy):
    cond = asarray(cond)
    if not xy:
        return nonzero(cond)
    x, y = xy
    shape = _broadcast_shapes(_broadcast_shapes(cond.shape, shape_of(x)), shape_of(y))
    cf = _broadcast_flat(cond, shape)
    xf = _broadcast_flat(asarray(x), shape)
    yf = _broadcast_flat(asarray(y), shape)
    out = [a if bool(c) else b for c, a, b in zip(cf, xf, yf)]
    return array(out).reshape(shape)


def shape_of(x):
    return asarray(x).shape


def nonzero(a):
    """indices of the non-zero elements: forks on every symbolic element"""
    a = asarray(a)
    if a.ndim == 0:
        _unsupported("nonzero of 0-d array")
    idx = [[] for _ in a.shape]
    flat = a._flat()
    k = 0
    for pos in itertools.product(*[range(s) for s in a.shape]):
        v = flat[k]
        k += 1
        if bool(v):   # forks through the engine when symbolic
            for d, i in enumerate(pos):
                idx[d].append(i)
    return tuple(ndarray._new(ix, (len(ix),), 'int') for ix in idx)


def flatnonzero(a):
    return nonzero(asarray(a).ravel())[0]


def count_nonzero(a):
    return (asarray(a) != 0).sum()


def sum(a, axis=None, dtype=None):
    return asarray(a).sum(axis)


def prod(a, axis=None):
    return asarray(a).prod(axis)


def any(a, axis=None):
    return asarray(a).any(axis)


def all(a, axis=None):
    return asarray(a).all(axis)


def mean(a, axis=None):
    return asarray(a).mean(axis)


def max(a, axis=None):
    return asarray(a).max(axis)


def min(a, axis=None):
    return asarray(a).min(axis)


amax = max
amin = min


def cumsum(a, axis=None, dtype=None):
    a = asarray(a)
    if axis not in (None, 0, -1) or (axis is not None and a.ndim != 1):
        _unsupported("cumsum with axis on nd arrays")
    out = []
    acc = 0
    for v in a._flat():
        acc = acc + v
        out.append(acc)
    r = ndarray._new(out, (len(out),), a.dt if a.dt != 'bool' else 'int')
    return r.astype(dtype) if dtype is not None else r


def argmax(a, axis=None):
    a = asarray(a)
    if axis is not None:
        _unsupported("argmax with axis")
    f = a._flat()
    if not f:
        raise ValueError("attempt to get argmax of an empty sequence")
    best = 0
    for i in range(1, len(f)):
        if f[i] > f[best]:
            best = i
    return best


def argmin(a, axis=None):
    a = asarray(a)
    if axis is not None:
        _unsupported("argmin with axis")
    f = a._flat()
    if not f:
        raise ValueError("attempt to get argmin of an empty sequence")
    best = 0
    for i in range(1, len(f)):
        if f[i] < f[best]:
            best = i
    return best


def tril_indices(n, k=0, m=None):
    n = _index(n)
    m = n if m is None else _index(m)
    rows, cols = [], []
    for i in range(n):
        for j in range(m):
            if j - i <= k:
                rows.append(i)
                cols.append(j)
    return (ndarray._new(rows, (len(rows),), 'int'), ndarray._new(cols, (len(cols),), 'int'))


def triu_indices(n, k=0, m=None):
    n = _index(n)
    m = n if m is None else _index(m)
    rows, cols = [], []
    for i in range(n):
        for j in range(m):
            if j - i >= k:
                rows.append(i)
                cols.append(j)
    return (ndarray._new(rows, (len(rows),), 'int'), ndarray._new(cols, (len(cols),), 'int'))


def expand_dims(a, axis):
    """a view with a new axis of length one (numpy returns a view, never a copy)"""
    a = asarray(a)
    axis = _index(axis)
    nd = a.ndim + 1
    if axis < 0:
        axis += nd
    if not 0 <= axis < nd:
        raise ValueError("axis out of bounds")
    shape = a.shape[:axis] + (1,) + a.shape[axis:]
    inner = a.strides[axis] * a.shape[axis] if axis < a.ndim else 1
    strides = a.strides[:axis] + (inner,) + a.strides[axis:]
    return ndarray(a.buf, a.off, shape, strides, a.dt)


def result_type(*args):
    dts = []
    for a in args:
        if isinstance(a, ndarray):
            dts.append(a.dt)
        elif isinstance(a, (type, str)):
            dts.append(_dt(a))
        else:
            dts.append(_scalar_dt(a))
    r = dts[0]
    for d in dts[1:]:
        r = _result_dt(r, d)
    return {'bool': bool, 'int': int, 'float': float, 'object': object}[r]


def fill_diagonal(a, val, wrap=False):
    if not isinstance(a, ndarray) or a.ndim != 2:
        _unsupported("fill_diagonal on non-2d")
    n = builtins.min(a.shape)
    for i in range(n):
        a[i, i] = val


def ix_(*seqs):
    """open mesh from index sequences: ix_(r, c) -> (r[:, None], c[None, :])"""
    out = []
    n = len(seqs)
    for k, sq in enumerate(seqs):
        a = asarray(list(sq) if not isinstance(sq, ndarray) else sq)
        if a.size == 0:
            a = ndarray._new([], (0,), 'int')
        if a.ndim != 1:
            raise ValueError("Cross index must be 1 dimensional")
        if a.dt == 'bool':
            a = where(a)[0]
        shape = [1] * n
        shape[k] = a.shape[0]
        out.append(a.reshape(tuple(shape)))
    return tuple(out)


def broadcast_to(a, shape, subok=False):
    a = asarray(a)
    shape = _shape_arg(shape)
    if len(a.shape) > len(shape) or _broadcast_shapes(a.shape, shape) != tuple(shape):
        raise ValueError("operands could not be broadcast together with remapped shapes [original->remapped]: %s and requested shape %s" % (a.shape, tuple(shape)))
    return ndarray._new(list(_broadcast_flat(a, shape)), shape, a.dt)


def split(a, indices_or_sections, axis=0):
    a = asarray(a)
    if axis != 0:
        _unsupported("split with axis != 0")
    n = a.shape[0]
    if isinstance(indices_or_sections, (int,)) and not isinstance(indices_or_sections, bool):
        k = indices_or_sections
        if k <= 0 or n % k != 0:
            raise ValueError("array split does not result in an equal division")
        cuts = [n // k * i for i in range(1, k)]
    else:
        cuts = [_index(x) for x in (indices_or_sections._flat() if isinstance(indices_or_sections, ndarray) else list(indices_or_sections))]
    out = []
    prev = 0
    for c in cuts + [n]:
        out.append(a[prev:c])
        prev = c
    return out


def log2(x):
    import math
    if isinstance(x, ndarray):
        return ndarray._new([log2(v) for v in x._flat()], x.shape, 'float')
    if is_sym(x):
        _unsupported("log2 of a symbolic value")
    return math.log2(x) if x > 0 else (float('-inf') if x == 0 else float('nan'))


def unravel_index(i, shape):
    i = _index(i)
    shape = tuple(shape)
    if i < 0 or i >= _prod(shape):
        raise ValueError("index %d is out of bounds for array with size %d" % (i, _prod(shape)))
    out = []
    for s in reversed(shape):
        out.append(i % s)
        i //= s
    return tuple(reversed(out))


def argsort(a, axis=-1, kind=None):
    a = asarray(a)
    if a.ndim != 1:
        _unsupported("argsort nd")
    f = a._flat()
    idx = sorted(range(len(f)), key=_cmp_key(f))
    return ndarray._new(idx, (len(idx),), 'int')


def _cmp_key(f):
    import functools

    def cmp(i, j):
        if f[i] < f[j]:
            return -1
        if f[j] < f[i]:
            return 1
        return -1 if i < j else (1 if i > j else 0)
    return functools.cmp_to_key(cmp)


def sort(a, axis=-1):
    a = asarray(a)
    if a.ndim != 1:
        _unsupported("sort nd")
    return ndarray._new(sorted(a._flat()), a.shape, a.dt)


def unique(a, axis=None, return_counts=False):
    if return_counts:
        _unsupported("unique return_counts")
    a = asarray(a)
    if axis is None:
        f = a._flat()
        out = []
        for v in sorted(f):
            if not out or not bool(out[-1] == v):
                out.append(v)
        return ndarray._new(out, (len(out),), a.dt)
    if axis != 0:
        _unsupported("unique axis != 0")
    rows = [tuple(a[i]._flat()) if a.ndim > 1 else (a[i],) for i in range(a.shape[0])]
    for r in rows:
        for v in r:
            if is_sym(v):
                _unsupported("unique(axis=0) on symbolic entries")
    uniq = sorted(set(rows))
    flat = [v for r in uniq for v in r]
    return ndarray._new(flat, (len(uniq),) + a.shape[1:], a.dt)


def isclose(a, b, rtol=1e-05, atol=1e-08, equal_nan=False):
    a = asarray(a)
    b = asarray(b)
    return a._bin(b, lambda x, y: _isclose1(x, y, rtol, atol), 'cmp')


def _isclose1(x, y, rtol, atol):
    if not is_sym(x) and not is_sym(y):
        if x != x or y != y:
            return False
        if x in (inf, -inf) or y in (inf, -inf):
            return x == y
        return builtins.abs(x - y) <= atol + rtol * builtins.abs(y)
    d = x - y
    tol_pos = atol + rtol * y
    tol_neg = atol - rtol * y
    # |x-y| <= atol + rtol*|y|
    c1 = sb_and([y >= 0, d <= tol_pos, -d <= tol_pos])
    c2 = sb_and([y < 0, d <= tol_neg, -d <= tol_neg])
    return sb_or([c1, c2])


def allclose(a, b, rtol=1e-05, atol=1e-08, equal_nan=False):
    return isclose(a, b, rtol, atol).all()


def array_equal(a, b):
    a, b = asarray(a), asarray(b)
    if a.shape != b.shape:
        return False
    return (a == b).all()


def matmul(a, b):
    a, b = asarray(a), asarray(b)
    if a.ndim == 0 or b.ndim == 0:
        raise ValueError("matmul: Input operand does not have enough dimensions")
    rdt = _result_dt(a.dt, b.dt)
    if rdt == 'bool':
        _unsupported("bool matmul")
    a1 = a.ndim == 1
    b1 = b.ndim == 1
    A = a.reshape(1, a.shape[0]) if a1 else a
    B = b.reshape(b.shape[0], 1) if b1 else b
    if A.ndim != 2 or B.ndim != 2:
        _unsupported("matmul with ndim > 2")
    n, k = A.shape
    k2, m = B.shape
    if k != k2:
        raise ValueError("matmul: Input operand 1 has a mismatch in its core dimension 0 (size %d is different from %d)" % (k2, k))
    Af = A._flat()
    Bf = B._flat()
    zero = 0 if rdt == 'int' else 0.0
    out = []
    for i in range(n):
        row = Af[i * k:(i + 1) * k]
        for j in range(m):
            acc = zero
            for t in range(k):
                x = row[t]
                y = Bf[t * m + j]
                # skip exact zeros: keeps terms small (0*x = 0 exactly in the real model)
                if (type(x) in (int, float) and x == 0) or (type(y) in (int, float) and y == 0):
                    continue
                acc = acc + x * y
            out.append(_cast(acc, rdt))
    r = ndarray._new(out, (n, m), rdt)
    if a1 and b1:
        return r.buf.data[0]
    if a1:
        return r.reshape(m)
    if b1:
        return r.reshape(n)
    return r


def dot(a, b):
    a, b = asarray(a), asarray(b)
    if a.ndim == 0 or b.ndim == 0:
        return a * b
    return matmul(a, b)


def outer(a, b):
    a, b = asarray(a).ravel(), asarray(b).ravel()
    return a.reshape(a.size, 1) * b.reshape(1, b.size)


def trace(a):
    a = asarray(a)
    return builtins.sum(a[i, i] for i in range(builtins.min(a.shape)))


def delete(arr, obj, axis=None):
    arr = asarray(arr)
    if axis is None:
        arr = arr.ravel()
        axis = 0
    n = arr.shape[axis]
    if isinstance(obj, ndarray) and obj.dt == 'bool':
        drop = set(i for i, b in enumerate(obj._flat()) if bool(b))
    elif isinstance(obj, (list, tuple, ndarray, range)):
        drop = set((_index(i) + n) % n for i in (obj._flat() if isinstance(obj, ndarray) else obj))
    else:
        drop = {(_index(obj) + n) % n}
    keep = [i for i in range(n) if i not in drop]
    key = tuple([slice(None)] * axis + [keep])
    return arr[key]


def insert(arr, obj, values, axis=None):
    """numpy.insert for a scalar position; the inserted values are cast to arr's dtype (as numpy does)"""
    arr = asarray(arr)
    if axis is None:
        arr = arr.ravel()
        axis = 0
    if isinstance(obj, (list, tuple, ndarray)):
        _unsupported("insert with several positions")
    nd = arr.ndim
    if axis < 0:
        axis += nd
    n = arr.shape[axis]
    pos = _index(obj)
    if pos < 0:
        pos += n
    if pos < 0 or pos > n:
        raise IndexError("index %d is out of bounds for axis %d with size %d" % (pos, axis, n))
    values = asarray(values)
    # move axis to front
    order = [axis] + [a for a in range(nd) if a != axis]
    A = arr.transpose(order)
    rest = A.shape[1:]
    # numpy: values broadcast against arr with the insertion axis of length 1 (or more)
    if values.ndim == 0:
        vals = [values.reshape((1,) * len(rest)) if rest else values]
        k = 1
        vflat = [_cast(values._flat()[0], arr.dt)] * _prod(rest)
        blocks = [vflat]
    else:
        # values.shape must broadcast to arr.shape with axis-length k
        if values.ndim == nd:
            V = values.transpose(order)
            k = V.shape[0]
            blocks = [[_cast(v, arr.dt) for v in _broadcast_flat(V[i], rest)] for i in range(k)]
        elif values.ndim == nd - 1 or nd == 1:
            if nd == 1:
                blocks = [[_cast(v, arr.dt)] for v in values._flat()]
            else:
                blocks = [[_cast(v, arr.dt) for v in _broadcast_flat(values, rest)]]
        else:
            _unsupported("insert with values of ndim %d into ndim %d" % (values.ndim, nd))
    rows = [A[i]._flat() if rest else [A[i]] for i in range(n)]
    newrows = rows[:pos] + blocks + rows[pos:]
    flat = [v for r in newrows for v in r]
    R = ndarray._new(flat, (len(newrows),) + tuple(rest), arr.dt)
    inv = [0] * nd
    for i, a in enumerate(order):
        inv[a] = i
    return R.transpose(inv).copy()


def append(arr, values, axis=None):
    arr = asarray(arr)
    values = asarray(values)
    if axis is None:
        return concatenate([arr.ravel(), values.ravel()])
    return concatenate([arr, values], axis=axis)


def round_(a, decimals=0):
    if decimals != 0:
        _unsupported("round with decimals")
    return _un(lambda x: builtins.round(x), None)(asarray(a))


around = round = round_


def interp(*a, **k):
    _unsupported("interp")


def average(*a, **k):
    _unsupported("average")


def cov(*a, **k):
    _unsupported("cov")


def percentile(*a, **k):
    _unsupported("percentile")


def isscalar(x):
    return not isinstance(x, (ndarray, list, tuple, dict, set)) and x is not None


def iterable(x):
    try:
        iter(x)
        return True
    except TypeError:
        return False


class _Version:
    version = '2.5.3'
    full_version = '2.5.3'


version = _Version()
__version__ = '2.5.3'


class _Generic:
    pass


generic = _Generic
number = (int, float, SV)
integer = int
floating = float

from . import linalg  # noqa: E402
from . import random  # noqa: E402


def __getattr__(name):
    """a numpy feature the shim does not model: the check that needs it is INCONCLUSIVE (exit 2), never a verdict;
    names that numpy itself does not have are ordinary AttributeErrors"""
    import importlib
    try:
        real = importlib.import_module("numpy")
    except Exception:
        real = None
    if name.startswith('_') or real is None or not hasattr(real, name):
        raise AttributeError("module %r has no attribute %r" % ("numpy", name))
    import symnp as _np
    _np._unsupported("numpy.%s" % name)
