"""contract stubs for numpy.random.

numpy's generators are C code; they are replaced by stubs that return
*arbitrary values allowed by their documented contract*, built from
uninterpreted functions of (generator state, draw counter, element index) so
that equal state and equal call sequence give equal draws (congruence) and
nothing else is assumed.

state sorts / functions
  RngState               uninterpreted sort
  SeedG(int), SeedL(int) state of the global stream after np.random.seed(s) /
                         of a Generator made by default_rng(s)
  Znorm, Uunif, Elap     (state, k, i) -> Real : standard normal / uniform[0,1)
                         / standard Laplace variates of the k-th draw call
  Iint                   (state, k, i) -> Int  : integer outcomes (integers,
                         choice positions, permutations)
Every draw is appended to LOG (for replay with a scripted generator).
"""
import z3
import symnp as np
from symx.core import SV, SB, Poly, ATOMS, engine, is_sym, Inconclusive

RngState = z3.DeclareSort('RngState')
SeedG = z3.Function('SeedG', z3.IntSort(), RngState)
SeedL = z3.Function('SeedL', z3.IntSort(), RngState)
Znorm = z3.Function('Znorm', RngState, z3.IntSort(), z3.IntSort(), z3.RealSort())
Uunif = z3.Function('Uunif', RngState, z3.IntSort(), z3.IntSort(), z3.RealSort())
Elap = z3.Function('Elap', RngState, z3.IntSort(), z3.IntSort(), z3.RealSort())
Iint = z3.Function('Iint', RngState, z3.IntSort(), z3.IntSort(), z3.IntSort())
# integer outcomes depend on HOW the stream is consumed (numpy transforms the same raw bits differently for
# integers(low, high), choice over N items, permutations ...): the kind of draw and its range are arguments
Ipos = z3.Function('Ipos', RngState, z3.IntSort(), z3.IntSort(), z3.IntSort(), z3.IntSort(), z3.IntSort())
Irange = z3.Function('Irange', RngState, z3.IntSort(), z3.IntSort(), z3.IntSort(), z3.IntSort(), z3.IntSort())
_OPCODE = {'choice': 0, 'gchoice': 1, 'permutation': 2, 'shuffle': 3}

LOG = []          # draws of the current path
_FAC = {}         # covariance-entry terms -> factor atoms (multivariate_normal)
_fresh = [0]


def _int_term(s):
    if isinstance(s, SV):
        if not s.isint:
            raise TypeError("seed must be an integer")
        return s.p.z3(as_int=True)
    if isinstance(s, bool) or not isinstance(s, int):
        raise TypeError("Cannot cast scalar to an integer seed: %r" % (s,))
    return z3.IntVal(s)


class _Stream:
    def __init__(self, state, label):
        self.state = state
        self.k = 0
        self.label = label

    def draw(self, fn, n):
        """n fresh variates of this draw call"""
        k = self.k
        self.k += 1
        kk = z3.IntVal(k)
        return k, [fn(self.state, kk, z3.IntVal(i)) for i in range(n)]


GLOBAL = _Stream(z3.Const('G0', RngState), 'global')


def reset(initial_state_name='G0'):
    """start of a path: the global stream is in an arbitrary (unconstrained) state"""
    global GLOBAL
    GLOBAL = _Stream(z3.Const(initial_state_name, RngState), 'global')
    del LOG[:]
    _FAC.clear()
    _fresh[0] = 0


def set_global_state(name):
    """model 'anything may have happened to the global generator': a new
    unconstrained state"""
    global GLOBAL
    GLOBAL = _Stream(z3.Const(name, RngState), 'global')


def seed(s=None):
    global GLOBAL
    if isinstance(s, np.npinteger):
        s = s.v
    if s is None:
        _fresh[0] += 1
        GLOBAL = _Stream(z3.Const('Gentropy!%d' % _fresh[0], RngState), 'global')
        LOG.append(dict(stream='global', op='seed', seed=None))
        return
    if isinstance(s, SV) or isinstance(s, int):
        t = _int_term(s)
        if not is_sym(s) and (s < 0 or s >= 2 ** 32):
            raise ValueError("Seed must be between 0 and 2**32 - 1")
        GLOBAL = _Stream(SeedG(t), 'global')
        LOG.append(dict(stream='global', op='seed', seed=s))
        return
    raise TypeError("Cannot cast scalar to an integer seed")


def _size(size):
    if size is None:
        return None, 1
    if isinstance(size, (tuple, list)):
        shape = tuple(np._index(s) for s in size)
    elif isinstance(size, np.ndarray):
        shape = tuple(np._index(s) for s in size._flat())
    else:
        shape = (np._index(size),)
    for s in shape:
        if s < 0:
            raise ValueError("negative dimensions are not allowed")
    return shape, np._prod(shape)


def _atoms(terms, isint=False):
    return [SV(Poly.atom(ATOMS.get(t)), None, isint) for t in terms]


def _wrap(vals, shape, dt='float'):
    if shape is None:
        return vals[0]
    return np.ndarray._new(vals, shape, dt)


def _normal(stream, loc, scale, size):
    if isinstance(loc, np.ndarray) or isinstance(scale, np.ndarray):
        np._unsupported("array-valued loc/scale in normal")
    if not is_sym(scale) and scale < 0:
        raise ValueError("scale < 0")
    shape, n = _size(size)
    k, ts = stream.draw(Znorm, n)
    zs = _atoms(ts)
    LOG.append(dict(stream=stream.label, op='normal', k=k, loc=loc, scale=scale, shape=shape, z=zs))
    return _wrap([np._cast(loc + scale * z, 'float') for z in zs], shape)


def _uniform(stream, low, high, size):
    if isinstance(low, np.ndarray) or isinstance(high, np.ndarray):
        np._unsupported("array-valued low/high in uniform")
    shape, n = _size(size)
    k, ts = stream.draw(Uunif, n)
    us = _atoms(ts)
    e = engine()
    for u in us:
        e.assume(u >= 0)
        e.assume(u < 1)
    LOG.append(dict(stream=stream.label, op='uniform', k=k, low=low, high=high, shape=shape, u=us))
    return _wrap([np._cast(low + (high - low) * u, 'float') for u in us], shape)


def _laplace(stream, loc, scale, size):
    shape, n = _size(size)
    k, ts = stream.draw(Elap, n)
    es = _atoms(ts)
    LOG.append(dict(stream=stream.label, op='laplace', k=k, loc=loc, scale=scale, shape=shape, e=es))
    return _wrap([np._cast(loc + scale * x, 'float') for x in es], shape)


def _positions(stream, n, N, distinct, op):
    """n symbolic positions in [0, N) (pairwise distinct if asked)"""
    code = z3.IntVal(_OPCODE.get(op, 9) * 2 + (1 if distinct else 0))
    k, ts = stream.draw(lambda st, kk, ii: Ipos(st, kk, ii, z3.IntVal(N), code), n)
    e = engine()
    for t in ts:
        e.assume(SB(z3.And(t >= 0, t < N)))
    if distinct and n > 1:
        e.assume(SB(z3.Distinct(*ts)))
    ps = _atoms(ts, True)
    LOG.append(dict(stream=stream.label, op=op, k=k, N=N, n=n, distinct=distinct, pos=ps))
    return ps, ts


def _select(pos_term, pos_sv, items):
    """items[pos] without forking: an If-chain atom (items: scalars)"""
    if len(items) == 1:
        return items[0]
    if all((not is_sym(x)) and isinstance(x, int) and not isinstance(x, bool) and x == i
           for i, x in enumerate(items)):
        return pos_sv
    if all(isinstance(x, (bool, SB)) for x in items):
        bs = [x.t if isinstance(x, SB) else z3.BoolVal(x) for x in items]
        t = bs[-1]
        for i in range(len(bs) - 2, -1, -1):
            t = z3.If(pos_term == i, bs[i], t)
        t = z3.simplify(t)
        if z3.is_true(t):
            return True
        if z3.is_false(t):
            return False
        return SB(t)
    allint = all((isinstance(x, int) and not isinstance(x, bool)) or (isinstance(x, SV) and x.isint) for x in items)
    zs = []
    for x in items:
        if isinstance(x, SV):
            zs.append(x.p.z3(as_int=True) if (allint and x.q is None) else x.zterm())
        elif isinstance(x, SB):
            raise Inconclusive("selection over symbolic booleans")
        elif allint:
            zs.append(z3.IntVal(x))
        else:
            zs.append(z3.RealVal(str(np.Fraction(x))) if isinstance(x, float) else z3.RealVal(x))
    if not allint:
        zs = [z3.ToReal(z) if z3.is_int(z) else z for z in zs]
    t = zs[-1]
    for i in range(len(zs) - 2, -1, -1):
        t = z3.If(pos_term == i, zs[i], t)
    return SV(Poly.atom(ATOMS.get(t)), None, allint)


def _select_any(pos_term, pos_sv, items):
    """items[pos] for items that are scalars, tuples/lists of scalars, or ndarrays (rows)"""
    x0 = items[0]
    if isinstance(x0, (tuple, list)):
        return type(x0)(_select(pos_term, pos_sv, [it[j] for it in items]) for j in range(len(x0)))
    if isinstance(x0, np.ndarray):
        flats = [it._flat() for it in items]
        out = [_select(pos_term, pos_sv, [f[j] for f in flats]) for j in range(len(flats[0]))]
        return np.ndarray._new(out, x0.shape, x0.dt)
    return _select(pos_term, pos_sv, items)


def _choice(stream, a, size, replace, p, op='choice'):
    if isinstance(a, (int, SV)) and not isinstance(a, bool):
        N = np._index(a)
        if N < 0:
            raise ValueError("a must be a positive integer unless no samples are taken")
        items = list(range(N))
    else:
        if isinstance(a, np.ndarray):
            if a.ndim == 0:
                raise ValueError("a must be a sequence or an integer, not 0-d")
            items = [a[i] for i in range(a.shape[0])]
        else:
            arr = np.array(list(a))
            items = [arr[i] for i in range(arr.shape[0])] if arr.ndim > 0 else []
        N = len(items)
    shape, n = _size(size)
    if N == 0 and n > 0:
        raise ValueError("a cannot be empty unless no samples are taken")
    if not replace and n > N:
        raise ValueError("Cannot take a larger sample than population when replace is False")
    if p is not None:
        pf = np.asarray(p)._flat()
        if len(pf) != N:
            raise ValueError("a and p must have same size")
    ps, ts = _positions(stream, n, N, not replace, op)
    LOG[-1]['p'] = list(pf) if p is not None else None
    if p is not None:
        e = engine()
        for q in ps:
            c = np._index(q)
            e.assume(pf[c] > 0)
    out = [_select_any(t, q, items) for t, q in zip(ts, ps)]
    if shape is None:
        return out[0]
    if out and isinstance(out[0], np.ndarray):
        return np.array(out)
    if not out and isinstance(a, np.ndarray) and a.ndim > 1:
        # an empty selection of rows keeps the row shape
        return np.ndarray._new([], (shape or (0,)) + a.shape[1:], a.dt)
    if not out:
        first = items[0] if items else 0
        if isinstance(first, np.ndarray):
            return np.ndarray._new([], (0,) + first.shape, first.dt)
        return np.ndarray._new([], shape, 'int' if not items or isinstance(first, int) else np._scalar_dt(first))
    return np.array(out).reshape(shape + np.asarray(out[0]).shape) if isinstance(out[0], (tuple, list)) else np.array(out).reshape(shape)


def _permuted_items(stream, items, op):
    n = len(items)
    if n <= 1:
        LOG.append(dict(stream=stream.label, op=op, k=None, N=n, n=n, distinct=True, pos=list(range(n))))
        return list(items)
    ps, ts = _positions(stream, n, n, True, op)
    # n distinct positions in [0, n) are onto (pigeonhole): stated explicitly, it is implied by the
    # constraints above and spares the solver from re-deriving it
    e = engine()
    for v in range(n):
        e.assume(SB(z3.Or([t == v for t in ts])))
    return [_select_any(t, q, items) for t, q in zip(ts, ps)]


# ---- module-level (global stream) API -------------------------------------

def get_state(legacy=True):
    """snapshot of the global stream (state term and draw counter)"""
    return ('symstate', GLOBAL.state, GLOBAL.k)


def set_state(st):
    global GLOBAL
    if not (isinstance(st, tuple) and len(st) == 3 and st[0] == 'symstate'):
        np._unsupported("numpy.random.set_state with a foreign state")
    GLOBAL = _Stream(st[1], 'global')
    GLOBAL.k = st[2]
    LOG.append(dict(stream='global', op='seed', seed=None))


def normal(loc=0.0, scale=1.0, size=None):
    return _normal(GLOBAL, loc, scale, size)


def uniform(low=0.0, high=1.0, size=None):
    return _uniform(GLOBAL, low, high, size)


def laplace(loc=0.0, scale=1.0, size=None):
    return _laplace(GLOBAL, loc, scale, size)


def choice(a, size=None, replace=True, p=None):
    return _choice(GLOBAL, a, size, replace, p)


def rand(*shape):
    return _uniform(GLOBAL, 0.0, 1.0, shape if shape else None)


def randn(*shape):
    return _normal(GLOBAL, 0.0, 1.0, shape if shape else None)


def permutation(x):
    return Generator._permutation(GLOBAL, x)


def shuffle(x):
    return Generator(None, None)._shuffle_on(GLOBAL, x)


def random_sample(size=None):
    return _uniform(GLOBAL, 0.0, 1.0, size)


random = random_sample


def standard_normal(size=None):
    return _normal(GLOBAL, 0.0, 1.0, size)


def randint(low, high=None, size=None, dtype=None):
    g = Generator(None, None)
    g._s = GLOBAL
    return g.integers(low, high, size)


def multivariate_normal(mean, cov, size=None, check_valid='warn', tol=1e-8):
    return _mvn(GLOBAL, mean, cov, size)


def _mvn(stream, mean, cov, size):
    mean = np.asarray(mean)
    cov = np.asarray(cov)
    if mean.ndim != 1:
        raise ValueError("mean must be 1 dimensional")
    if cov.ndim != 2 or cov.shape[0] != cov.shape[1]:
        raise ValueError("cov must be 2 dimensional and square")
    p = mean.shape[0]
    if cov.shape[0] != p:
        raise ValueError("mean and cov must have same length")
    shape, n = _size(size)
    cf = cov._flat()
    mf = mean._flat()
    # factor: an (uninterpreted) function of the covariance with L L^T = C
    key = tuple(x.zterm().get_id() if isinstance(x, SV) else ('c', x) for x in cf)
    L = _FAC.get(key)
    e = engine()
    if L is None:
        idx = len(_FAC)
        L = [[e.real("Lfac!%d_%d_%d" % (idx, i, j)) for j in range(p)] for i in range(p)]
        _FAC[key] = L
        for i in range(p):
            for j in range(i, p):
                s = 0
                for t in range(p):
                    s = s + L[i][t] * L[j][t]
                e.assume_lazy(s == cf[i * p + j])
                if i != j:
                    e.assume_lazy(s == cf[j * p + i])
            # consequence of L L^T = C over the reals (sum of squares), stated to spare the solver:
            # a zero variance forces a zero row of the factor
            d = cf[i * p + i]
            if is_sym(d):
                zero = (d == 0)
                rowz = z3.And([(L[i][t] == 0).t for t in range(p)])
                e.assume_lazy(z3.Implies(zero.t, rowz) if isinstance(zero, SB) else (rowz if zero else z3.BoolVal(True)))
            elif d == 0:
                e.assume_lazy(z3.And([(L[i][t] == 0).t for t in range(p)]))
    k = stream.k
    stream.k += 1
    kk = z3.IntVal(k)
    rows = []
    zall = []
    for r in range(n):
        zs = _atoms([Znorm(stream.state, kk, z3.IntVal(r * p + j)) for j in range(p)])
        zall.append(zs)
        row = []
        for i in range(p):
            v = mf[i]
            for j in range(p):
                v = v + L[i][j] * zs[j]
            row.append(np._cast(v, 'float'))
        rows.append(row)
    LOG.append(dict(stream=stream.label, op='multivariate_normal', k=k, mean=mf, cov=cf, p=p, shape=shape, L=L, z=zall))
    flat = [v for row in rows for v in row]
    if shape is None:
        return np.ndarray._new(flat, (p,), 'float')
    return np.ndarray._new(flat, shape + (p,), 'float')


# ---- Generator ----------------------------------------------------------------

class Generator:
    def __init__(self, state, label):
        self._s = _Stream(state, label) if label is not None else None

    def uniform(self, low=0.0, high=1.0, size=None):
        return _uniform(self._s, low, high, size)

    def random(self, size=None):
        return _uniform(self._s, 0.0, 1.0, size)

    def normal(self, loc=0.0, scale=1.0, size=None):
        return _normal(self._s, loc, scale, size)

    def laplace(self, loc=0.0, scale=1.0, size=None):
        return _laplace(self._s, loc, scale, size)

    def multivariate_normal(self, mean, cov, size=None, **kw):
        return _mvn(self._s, mean, cov, size)

    def integers(self, low, high=None, size=None, dtype=None, endpoint=False):
        if high is None:
            low, high = 0, low
        if endpoint:
            high = high + 1
        shape, n = _size(size)
        if not bool(low < high):
            if n == 0:
                return np.ndarray._new([], shape, 'int')
            raise ValueError("low >= high")
        def zi(v):
            return v.p.z3(as_int=True) if isinstance(v, SV) else z3.IntVal(int(v))
        lo_t, hi_t = zi(low), zi(high)
        k, ts = self._s.draw(lambda st, kk, ii: Irange(st, kk, ii, lo_t, hi_t), n)
        e = engine()
        vs = _atoms(ts, True)
        for v in vs:
            e.assume(v >= low)
            e.assume(v < high)
        LOG.append(dict(stream=self._s.label, op='integers', k=k, low=low, high=high, shape=shape, v=vs))
        return _wrap(vs, shape, 'int')

    def choice(self, a, size=None, replace=True, p=None, axis=0, shuffle=True):
        if axis != 0:
            np._unsupported("Generator.choice with axis != 0")
        return _choice(self._s, a, size, replace, p, 'gchoice')

    @staticmethod
    def _permutation(stream, x):
        if isinstance(x, (int, SV)) and not isinstance(x, bool):
            n = np._index(x)
            items = list(range(n))
            out = _permuted_items(stream, items, 'permutation')
            return np.ndarray._new(out, (n,), 'int')
        arr = np.asarray(x)
        items = [arr[i] for i in range(arr.shape[0])]
        out = _permuted_items(stream, items, 'permutation')
        if arr.ndim == 1:
            return np.ndarray._new(out, arr.shape, arr.dt)
        return np.array(out, dtype=arr.dt) if out else arr.copy()

    def permutation(self, x, axis=0):
        return Generator._permutation(self._s, x)

    def shuffle(self, x, axis=0):
        return self._shuffle_on(self._s, x)

    def _shuffle_on(self, stream, x):
        if isinstance(x, list):
            out = _permuted_items(stream, list(x), 'shuffle')
            x[:] = out
            return None
        if isinstance(x, np.ndarray):
            if x.ndim == 0:
                raise TypeError("len() of unsized object")
            n = x.shape[0]
            items = [x[i].copy() if isinstance(x[i], np.ndarray) else x[i] for i in range(n)]
            out = _permuted_items(stream, items, 'shuffle')
            if n > 1:
                for i in range(n):
                    x[i] = out[i]
            elif x.buf.frozen:
                pass
            return None
        np._unsupported("shuffle of %r" % type(x).__name__)


_gen_count = [0]


def default_rng(seed=None):
    if isinstance(seed, Generator):
        return seed
    if isinstance(seed, np.npinteger):
        seed = seed.v
    _gen_count[0] += 1
    if seed is None:
        _fresh[0] += 1
        g = Generator(z3.Const('Lentropy!%d' % _fresh[0], RngState), 'gen%d' % _fresh[0])
        LOG.append(dict(stream=g._s.label, op='default_rng', seed=None))
        return g
    if isinstance(seed, (SV, int)) and not isinstance(seed, bool):
        if not is_sym(seed) and seed < 0:
            raise ValueError("expected non-negative integer")
        _fresh[0] += 1
        g = Generator(SeedL(_int_term(seed)), 'gen%d' % _fresh[0])
        LOG.append(dict(stream=g._s.label, op='default_rng', seed=seed))
        return g
    raise TypeError("SeedSequence expects int or sequence of ints for entropy not %r" % (seed,))


class RandomState:
    def __init__(self, *a, **k):
        np._unsupported("RandomState")


def __getattr__(name):
    """a numpy feature the shim does not model: the check that needs it is INCONCLUSIVE (exit 2), never a verdict;
    names that numpy itself does not have are ordinary AttributeErrors"""
    import importlib
    try:
        real = importlib.import_module("numpy.random")
    except Exception:
        real = None
    if name.startswith('_') or real is None or not hasattr(real, name):
        raise AttributeError("module %r has no attribute %r" % ("numpy.random", name))
    import symnp as _np
    _np._unsupported("numpy.random.%s" % name)
