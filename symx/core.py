"""symx -- a small forking symbolic executor on the z3 Python API.

The code under test runs as ordinary Python on *symbolic scalars* (`SV`
numeric, `SB` boolean).  Whenever Python needs a concrete truth value
(`if`, `while`, `and`, `sorted` ...) `SB.__bool__` asks the engine, which
asks z3 which directions are feasible under the current path condition and
explores all feasible ones by depth-first re-execution.  `__index__`,
`__int__`, `__hash__` concretise an integer term by forking over all its
feasible values.

Numeric scalars are rational functions num/den of sparse polynomials over
"atoms" (z3 constants, uninterpreted-function applications, `If` terms ...)
with exact rational coefficients.  The denominator is always known to be
positive on the current path (its sign is decided when the division is
made), so every comparison is cross-multiplied and only polynomial
constraints reach the solver.
"""
import time
import z3
from fractions import Fraction

# --------------------------------------------------------------------------
# exceptions.  Control-flow exceptions derive from BaseException so that
# `except Exception` / `except ValueError` in the code under test or in the
# harness cannot swallow them.


class Inconclusive(BaseException):
    """solver said unknown / unsupported feature / harness error"""


class PathInfeasible(BaseException):
    """an assumption made the current path infeasible (path is dropped)"""


class EngineError(BaseException):
    pass


ENGINE = None  # the engine of this process


def engine():
    if ENGINE is None:
        raise EngineError("no active engine")
    return ENGINE


# --------------------------------------------------------------------------
# atoms and polynomials

class _Atoms:
    def __init__(self):
        self.terms = []      # z3 numeric terms
        self.isint = []
        self.index = {}      # z3 ast id -> idx

    def get(self, term):
        i = self.index.get(term.get_id())
        if i is None:
            i = len(self.terms)
            self.terms.append(term)
            self.isint.append(z3.is_int(term))
            self.index[term.get_id()] = i
        return i


ATOMS = _Atoms()


def _norm(c):
    if type(c) is Fraction and c.denominator == 1:
        return c.numerator
    return c


def _tonum(c):
    """concrete python number -> int or Fraction (exact)"""
    t = type(c)
    if t is int or t is Fraction:
        return _norm(c)
    if t is bool:
        return int(c)
    if t is float:
        if c != c or c in (float('inf'), float('-inf')):
            raise Inconclusive("non-finite float mixed with a symbolic value")
        return _norm(Fraction(c))
    try:
        import numpy as _np
        if isinstance(c, _np.generic):
            return _tonum(c.item())
    except ImportError:
        pass
    raise TypeError("not a number: %r" % (c,))


class Poly:
    """sparse polynomial: dict monomial -> coefficient (int | Fraction);
    a monomial is a sorted tuple of (atom index, exponent)."""
    __slots__ = ('d', '_z', '_h')

    def __init__(self, d):
        self.d = d
        self._z = None
        self._h = None

    @staticmethod
    def const(c):
        c = _tonum(c)
        return Poly({(): c}) if c != 0 else Poly({})

    @staticmethod
    def atom(idx):
        return Poly({((idx, 1),): 1})

    def is_const(self):
        d = self.d
        return len(d) == 0 or (len(d) == 1 and () in d)

    def const_value(self):
        return self.d.get((), 0)

    def is_zero(self):
        return len(self.d) == 0

    def add(self, o):
        d = dict(self.d)
        for m, c in o.d.items():
            v = d.get(m)
            if v is None:
                d[m] = c
            else:
                v = _norm(v + c)
                if v == 0:
                    del d[m]
                else:
                    d[m] = v
        return Poly(d)

    def neg(self):
        return Poly({m: -c for m, c in self.d.items()})

    def sub(self, o):
        return self.add(o.neg())

    def scale(self, c):
        if c == 0:
            return Poly({})
        if c == 1:
            return self
        return Poly({m: _norm(v * c) for m, v in self.d.items()})

    def mul(self, o):
        if len(self.d) == 0 or len(o.d) == 0:
            return Poly({})
        if o.is_const():
            return self.scale(o.const_value())
        if self.is_const():
            return o.scale(self.const_value())
        d = {}
        for m1, c1 in self.d.items():
            for m2, c2 in o.d.items():
                m = _mono_mul(m1, m2)
                c = c1 * c2
                v = d.get(m)
                if v is None:
                    d[m] = _norm(c)
                else:
                    v = _norm(v + c)
                    if v == 0:
                        del d[m]
                    else:
                        d[m] = v
        return Poly(d)

    def eq(self, o):
        return self.d == o.d

    def key(self):
        if self._h is None:
            self._h = hash(frozenset(self.d.items()))
        return self._h

    def atoms(self):
        s = set()
        for m in self.d:
            for (i, _) in m:
                s.add(i)
        return s

    def all_int(self):
        for m, c in self.d.items():
            if type(c) is not int:
                return False
            for (i, _) in m:
                if not ATOMS.isint[i]:
                    return False
        return True

    def z3(self, as_int=False):
        """z3 term; Int-sorted only if as_int and everything is integral"""
        if as_int and self.all_int():
            k = (frozenset(self.d.items()), True)
            t = _Z3CACHE.get(k)
            if t is None:
                t = self._build(True)
                _Z3CACHE[k] = t
            return t
        if self._z is None:
            k = (frozenset(self.d.items()), False)
            t = _Z3CACHE.get(k)
            if t is None:
                t = self._build(False)
                _Z3CACHE[k] = t
            self._z = t
        return self._z

    def _build(self, as_int):
        terms = []
        for m, c in sorted(self.d.items(), key=lambda kv: kv[0]):
            fs = []
            for (i, e) in m:
                a = ATOMS.terms[i]
                if not as_int and ATOMS.isint[i]:
                    a = z3.ToReal(a)
                for _ in range(e):
                    fs.append(a)
            if as_int:
                cz = z3.IntVal(c)
            else:
                cz = z3.RealVal(str(c)) if type(c) is Fraction else z3.RealVal(c)
            if not fs:
                terms.append(cz)
            else:
                prod = fs[0]
                for f in fs[1:]:
                    prod = prod * f
                terms.append(prod if c == 1 else cz * prod)
        if not terms:
            return z3.IntVal(0) if as_int else z3.RealVal(0)
        if len(terms) == 1:
            return terms[0]
        return z3.Sum(terms)

    def __repr__(self):
        return "Poly(%r)" % (self.d,)


def _mono_mul(a, b):
    if not a:
        return b
    if not b:
        return a
    out = []
    i = j = 0
    la, lb = len(a), len(b)
    while i < la and j < lb:
        x, y = a[i], b[j]
        if x[0] == y[0]:
            out.append((x[0], x[1] + y[1]))
            i += 1
            j += 1
        elif x[0] < y[0]:
            out.append(x)
            i += 1
        else:
            out.append(y)
            j += 1
    if i < la:
        out.extend(a[i:])
    if j < lb:
        out.extend(b[j:])
    return tuple(out)


_Z3CACHE = {}
_CMPCACHE = {}
_ANDCACHE = {}
ONE = Poly({(): 1})
ZERO = Poly({})

# --------------------------------------------------------------------------
# symbolic booleans


def _is_conc_bool(x):
    return x is True or x is False or type(x).__name__ == 'bool_'


class SB:
    """symbolic boolean: wraps a z3 Bool term.  `fact` = (atom idx, rel)
    when the term is `atom rel 0`, used for fact folding."""
    __slots__ = ('t', 'fact')

    def __init__(self, t, fact=None):
        self.t = t
        self.fact = fact

    def __bool__(self):
        e = engine()
        r = e.decide(self.t)
        if self.fact is not None:
            e.note_fact(self.fact, r)
        return r

    # logical
    def __and__(self, o):
        o = _tobool(o)
        if o is True:
            return self
        if o is False:
            return False
        k = ('&', self.t.get_id(), o.t.get_id())
        r = _ANDCACHE.get(k)
        if r is None:
            r = SB(z3.And(self.t, o.t))
            _ANDCACHE[k] = (r, self, o)
            return r
        return r[0]
    __rand__ = __and__

    def __or__(self, o):
        o = _tobool(o)
        if o is True:
            return True
        if o is False:
            return self
        k = ('|', self.t.get_id(), o.t.get_id())
        r = _ANDCACHE.get(k)
        if r is None:
            r = SB(z3.Or(self.t, o.t))
            _ANDCACHE[k] = (r, self, o)
            return r
        return r[0]
    __ror__ = __or__

    def __xor__(self, o):
        o = _tobool(o)
        if o is True:
            return ~self
        if o is False:
            return self
        return SB(z3.Xor(self.t, o.t))
    __rxor__ = __xor__

    def __invert__(self):
        k = ('~', self.t.get_id())
        r = _ANDCACHE.get(k)
        if r is not None:
            return r[0]
        f = None
        if self.fact is not None:
            f = (self.fact[0], _NEGREL[self.fact[1]])
        r = SB(z3.Not(self.t), f)
        _ANDCACHE[k] = (r, self)
        return r

    def __eq__(self, o):
        if isinstance(o, SB):
            return SB(self.t == o.t)
        if _is_conc_bool(o):
            return self if o else ~self
        return self.num() == o

    def __ne__(self, o):
        r = self.__eq__(o)
        return (not r) if _is_conc_bool(r) else ~r

    __hash__ = None

    # arithmetic: as the integer 0/1
    def num(self):
        c = ENGINE.known(self.t) if ENGINE is not None else None
        if c is not None:
            return SV(Poly.const(1 if c else 0), None, True)
        idx = ATOMS.get(z3.If(self.t, z3.IntVal(1), z3.IntVal(0)))
        ITE01[idx] = self
        return SV(Poly.atom(idx), None, True)

    def __add__(self, o): return self.num() + o
    def __radd__(self, o): return o + self.num()
    def __sub__(self, o): return self.num() - o
    def __rsub__(self, o): return o - self.num()
    def __mul__(self, o): return self.num() * o
    def __rmul__(self, o): return o * self.num()
    def __neg__(self): return -self.num()
    def __lt__(self, o): return self.num() < o
    def __le__(self, o): return self.num() <= o
    def __gt__(self, o): return self.num() > o
    def __ge__(self, o): return self.num() >= o
    def __truediv__(self, o): return self.num() / o
    def __int__(self): return int(bool(self))
    def __index__(self): return int(bool(self))
    def __float__(self): return float(bool(self))
    def __deepcopy__(self, memo): return self
    def __copy__(self): return self

    def __repr__(self):
        return "SB(%s)" % (self.t,)


ITE01 = {}   # atom idx of If(c,1,0) -> the SB c


_NEGREL = {'==': '!=', '!=': '==', '<': '>=', '>=': '<', '>': '<=', '<=': '>'}


def _tobool(o):
    if isinstance(o, SB):
        return o
    if isinstance(o, SV):
        return o != 0
    return bool(o)


def sb_and(items):
    """conjunction without forking; returns python bool or SB"""
    ts = []
    for x in items:
        x = _tobool(x)
        if x is False:
            return False
        if x is True:
            continue
        ts.append(x.t)
    if not ts:
        return True
    if len(ts) == 1:
        return SB(ts[0])
    return SB(z3.And(ts))


def sb_or(items):
    ts = []
    for x in items:
        x = _tobool(x)
        if x is True:
            return True
        if x is False:
            continue
        ts.append(x.t)
    if not ts:
        return False
    if len(ts) == 1:
        return SB(ts[0])
    return SB(z3.Or(ts))


def zbool(x):
    """python bool | SB -> z3 Bool term"""
    if isinstance(x, SB):
        return x.t
    if isinstance(x, z3.BoolRef):
        return x
    if isinstance(x, SV):
        return (x != 0).t if isinstance(x != 0, SB) else z3.BoolVal(bool(x != 0))
    return z3.BoolVal(bool(x))


# --------------------------------------------------------------------------
# symbolic numbers


def is_sym(x):
    return isinstance(x, (SV, SB))


class SV:
    """symbolic number = p / q (q is None (=1) or a polynomial known to be
    positive on the current path); `isint`: integer-typed (numpy int64 /
    python int) as opposed to real-typed (float)."""
    __slots__ = ('p', 'q', 'isint')

    def __init__(self, p, q=None, isint=False):
        self.p = p
        self.q = q
        self.isint = isint

    # ---- helpers
    @staticmethod
    def lift(x, like_int=None):
        if isinstance(x, SV):
            return x
        if isinstance(x, SB):
            return x.num()
        c = _tonum(x)
        return SV(Poly.const(c), None, type(c) is int and not isinstance(x, float))

    def is_const(self):
        return self.p.is_const() and (self.q is None or self.q.is_const())

    def const_value(self):
        v = self.p.const_value()
        if self.q is not None:
            v = _norm(Fraction(v) / self.q.const_value())
        return v

    def concrete(self):
        """python number if constant else self"""
        if self.p.is_const() and self.q is None:
            v = self.p.const_value()
            if self.isint:
                return int(v)
            return float(v) if type(v) is Fraction else (float(v) if not self.isint else v)
        return self

    def zterm(self):
        """z3 term of the value (Real-sorted unless integral)"""
        if self.q is None:
            return self.p.z3(as_int=self.isint)
        return self.p.z3() / self.q.z3()

    # ---- arithmetic
    def __add__(self, o):
        if isinstance(o, (list, tuple)) or hasattr(o, '__array_priority__'):
            return NotImplemented
        o = SV.lift(o)
        isint = self.isint and o.isint
        if self.q is None and o.q is None:
            return SV(self.p.add(o.p), None, isint)
        sq = self.q or ONE
        oq = o.q or ONE
        if sq.eq(oq):
            return _mk(self.p.add(o.p), sq)
        return _mk(self.p.mul(oq).add(o.p.mul(sq)), sq.mul(oq))
    __radd__ = __add__

    def __neg__(self):
        return SV(self.p.neg(), self.q, self.isint)

    def __pos__(self):
        return self

    def __sub__(self, o):
        if isinstance(o, (list, tuple)) or hasattr(o, '__array_priority__'):
            return NotImplemented
        return self.__add__(-SV.lift(o))

    def __rsub__(self, o):
        return (-self).__add__(o)

    def __mul__(self, o):
        if isinstance(o, (list, tuple)) or hasattr(o, '__array_priority__'):
            return NotImplemented
        o = SV.lift(o)
        isint = self.isint and o.isint
        if self.q is None and o.q is None:
            return SV(self.p.mul(o.p), None, isint)
        sq = self.q or ONE
        oq = o.q or ONE
        return _mk(self.p.mul(o.p), sq.mul(oq))
    __rmul__ = __mul__

    def __truediv__(self, o):
        if hasattr(o, '__array_priority__'):
            return NotImplemented
        o = SV.lift(o)
        return _div(self, o)

    def __rtruediv__(self, o):
        return _div(SV.lift(o), self)

    def __floordiv__(self, o):
        o = SV.lift(o)
        if self.isint and o.isint and o.is_const() and self.q is None:
            k = int(o.const_value())
            if k == 0:
                raise ZeroDivisionError("integer division by zero")
            t = self.p.z3(as_int=True)
            # python floor division
            if k > 0:
                return SV(Poly.atom(ATOMS.get(t / z3.IntVal(k))), None, True) if False else _floor_div_int(t, k)
            return _floor_div_int(-t, -k)
        r = _div(self, o)
        return r.floor()

    def __rfloordiv__(self, o):
        return SV.lift(o).__floordiv__(self)

    def __mod__(self, o):
        o = SV.lift(o)
        return self - (self // o) * o

    def __pow__(self, e):
        if isinstance(e, SV):
            if e.is_const():
                e = e.const_value()
            else:
                raise Inconclusive("symbolic exponent")
        if isinstance(e, float) and e == int(e):
            e = int(e)
        if isinstance(e, int):
            if e >= 0:
                r = SV(ONE, None, self.isint)
                for _ in range(e):
                    r = r * self
                return r
            return 1 / (self ** (-e))
        if e == 0.5:
            return engine().sqrt(self)
        raise Inconclusive("unsupported power %r" % (e,))

    def __rpow__(self, b):
        if self.is_const():
            return b ** self.const_value()
        # base ** symbolic int: concretise the exponent
        return b ** int(self)

    def __abs__(self):
        if self >= 0:
            return self
        return -self

    def floor(self):
        if self.isint:
            return self
        t = self.zterm()
        return SV(Poly.atom(ATOMS.get(z3.ToInt(t))), None, True)

    def trunc(self):
        """truncate toward zero (numpy float -> int cast)"""
        if self.isint:
            return self
        t = self.zterm()
        z = z3.If(t >= 0, z3.ToInt(t), -z3.ToInt(-t))
        return SV(Poly.atom(ATOMS.get(z)), None, True)

    def asreal(self):
        if not self.isint:
            return self
        return SV(self.p, self.q, False)

    def __round__(self, nd=None):
        if nd is not None:
            raise Inconclusive("round with digits on a symbolic value")
        if self.isint:
            return self
        # round half to even, on the exact real value
        t = self.zterm()
        f = z3.ToInt(t + z3.RealVal("1/2"))
        tie = (z3.ToReal(f) == t + z3.RealVal("1/2"))
        z = z3.If(z3.And(tie, f % 2 != 0), f - 1, f)
        return SV(Poly.atom(ATOMS.get(z)), None, True)

    # ---- comparisons
    def _cmp(self, o, rel):
        if isinstance(o, (list, tuple)) or hasattr(o, '__array_priority__'):
            return NotImplemented
        if o is None:
            return rel == '!='
        if isinstance(o, str):
            return rel == '!='
        o = SV.lift(o)
        # difference numerator (dens are positive): sign(self-o) = sign(a*oq - b*sq)
        if self.q is None and o.q is None:
            diff = self.p.sub(o.p)
            if diff.is_const():
                return _CONCREL[rel](diff.const_value(), 0)
            # fact folding on a single monomial
            r = engine().fold(diff, rel)
            if r is not None:
                return r
            if len(diff.d) == 1 and ITE01:
                (m, c), = diff.d.items()
                if len(m) == 1 and m[0][1] == 1 and m[0][0] in ITE01 and c > 0:
                    b = ITE01[m[0][0]]
                    if rel in ('!=', '>'):
                        return b
                    if rel in ('==', '<='):
                        return ~b
                    if rel == '>=':
                        return True
                    return False
            as_int = self.isint and o.isint
            ck = (frozenset(self.p.d.items()), frozenset(o.p.d.items()), rel, as_int)
            sb = _CMPCACHE.get(ck)
            if sb is not None:
                return sb
            fact = None
            if len(diff.d) == 1:
                (m, c), = diff.d.items()
                if len(m) == 1 and m[0][1] == 1 and c == 1:
                    fact = (m[0][0], rel)
            if o.p.is_zero() or self.p.is_zero():
                t = _ZREL[rel](diff.z3(as_int=as_int), 0)
            else:
                t = _ZREL[rel](self.p.z3(as_int=as_int), o.p.z3(as_int=as_int))
            sb = SB(t, fact)
            _CMPCACHE[ck] = sb
            return sb
        sq = self.q or ONE
        oq = o.q or ONE
        # denominators are positive on this path: sign(self - o) = sign(N),
        # N = self.p * oq - o.p * sq, kept in polynomial normal form
        if sq.eq(oq):
            N = self.p.sub(o.p)
        else:
            N = self.p.mul(oq).sub(o.p.mul(sq))
        if N.is_const():
            if ENGINE is not None:
                ENGINE.stats['poly_folded'] = ENGINE.stats.get('poly_folded', 0) + 1
            return _CONCREL[rel](N.const_value(), 0)
        r = engine().fold(N, rel)
        if r is not None:
            return r
        return SB(_ZREL[rel](N.z3(), 0))

    def __eq__(self, o): return self._cmp(o, '==')
    def __ne__(self, o): return self._cmp(o, '!=')
    def __lt__(self, o): return self._cmp(o, '<')
    def __le__(self, o): return self._cmp(o, '<=')
    def __gt__(self, o): return self._cmp(o, '>')
    def __ge__(self, o): return self._cmp(o, '>=')

    # ---- concretisation
    def __bool__(self):
        r = (self != 0)
        return bool(r)

    def __index__(self):
        if not self.isint:
            raise TypeError("only integer scalar arrays can be converted to a scalar index")
        return engine().concretize(self)

    def __int__(self):
        if self.isint:
            return engine().concretize(self)
        return engine().concretize(self.trunc())

    def __float__(self):
        if self.is_const():
            return float(self.const_value())
        raise Inconclusive("float() of a symbolic value")

    def __hash__(self):
        if self.isint:
            return hash(engine().concretize(self))
        if self.is_const():
            return hash(self.const_value())
        raise Inconclusive("hash of a symbolic real")

    def __deepcopy__(self, memo): return self
    def __copy__(self): return self

    def __repr__(self):
        if self.q is None:
            return "SV(%s)" % (self.p.z3(as_int=self.isint),)
        return "SV(%s / %s)" % (self.p.z3(), self.q.z3())


_CONCREL = {
    '==': lambda a, b: a == b, '!=': lambda a, b: a != b,
    '<': lambda a, b: a < b, '<=': lambda a, b: a <= b,
    '>': lambda a, b: a > b, '>=': lambda a, b: a >= b,
}
_ZREL = _CONCREL


def _floor_div_int(t, k):
    # z3 integer division rounds so that remainder is non-negative; for k>0
    # this is floor division
    return SV(Poly.atom(ATOMS.get(t / z3.IntVal(k))), None, True)


def _mk(p, q):
    """make p/q, folding constant denominators"""
    if q.is_const():
        c = q.const_value()
        if c == 1:
            return SV(p, None, False)
        return SV(p.scale(Fraction(1, 1) / c), None, False)
    if p.is_zero():
        return SV(p, None, False)
    return SV(p, q, False)


def _div(a, b):
    """a / b with the sign of the new denominator decided by the engine"""
    # b = bp/bq ; a/b = (ap*bq) / (aq*bp)
    bp = b.p
    if bp.is_const():
        c = bp.const_value()
        if c == 0:
            raise ZeroDivisionError("division by zero")
        num = a.p.scale(Fraction(1, 1) / c)
        if b.q is not None:
            num = num.mul(b.q)
        return _mk(num, a.q or ONE)
    s = engine().sign_of(bp)
    if s == 0:
        raise ZeroDivisionError("division by zero")
    num = a.p if b.q is None else a.p.mul(b.q)
    den = bp if a.q is None else a.q.mul(bp)
    if s < 0:
        num = num.neg()
        den = den.neg() if a.q is None else a.q.mul(bp.neg())
    return _mk(num, den)


# --------------------------------------------------------------------------
# engine

class _Entry:
    __slots__ = ('term', 'value', 'pending', 'payload', 'imp_t', 'imp_f')

    def __init__(self, term, value, pending, payload=None):
        self.term = term
        self.value = value
        self.pending = pending
        self.payload = payload
        self.imp_t = None   # literals implied when the term is true  [(id, bool)]
        self.imp_f = None   # ... when it is false


def _implied(term, value, out):
    """literals implied by term == value (And true / Or false / Not)"""
    if z3.is_not(term):
        c = term.arg(0)
        out.append((c.get_id(), not value))
        _implied(c, not value, out)
    elif value and z3.is_and(term):
        for c in term.children():
            out.append((c.get_id(), True))
            _implied(c, True, out)
    elif (not value) and z3.is_or(term):
        for c in term.children():
            out.append((c.get_id(), False))
            _implied(c, False, out)


import os as _os
CROSS_BUDGET = int(_os.environ.get('VERIF_CVC5_PER_CUBE', '2'))
CROSS_EVERY = 37
CROSS_OFFSET = int(_os.environ.get('VERIF_SEED', '0') or 0)


class Engine:
    def __init__(self, timeout_ms=60000, max_paths=None):
        global ENGINE
        ENGINE = self
        self.solver = z3.Solver()
        self.solver.set('timeout', timeout_ms)
        self.timeout_ms = timeout_ms
        self.stack = []
        self.pos = 0
        self.model = None
        self.cache = {}
        self.facts = {}
        self.sqrt_cache = {}
        self.input_terms = {}
        self.short_timeout_ms = min(timeout_ms, 8000)
        self.fresh_counter = 0
        self.path_assumes = 0
        self.lemmas = []
        self.max_paths = max_paths
        self.stats = dict(paths=0, decisions=0, forced=0, solver_calls=0,
                          solver_s=0.0, feas_queries=0, prop_queries=0,
                          folded=0, replayed=0, max_depth=0, infeasible_paths=0)

    # ---- solver wrappers
    def _check(self, *assumptions, kind='feas', guided=None):
        t0 = time.time()
        if (kind == 'feas' or guided) and self.short_timeout_ms < self.timeout_ms:
            self.solver.set('timeout', self.short_timeout_ms)
            try:
                r = self.solver.check(*assumptions)
            finally:
                self.solver.set('timeout', self.timeout_ms)
            if r == z3.unknown:
                r = self._guided(assumptions)
                if r == z3.unknown:
                    r = self.solver.check(*assumptions)
        else:
            r = self.solver.check(*assumptions)
        self.stats['solver_s'] += time.time() - t0
        self.stats['solver_calls'] += 1
        self.stats['feas_queries' if kind == 'feas' else 'prop_queries'] += 1
        if r == z3.unknown:
            raise Inconclusive("solver returned unknown (%s): %s" % (kind, self.solver.reason_unknown()))
        if r == z3.sat:
            gm = getattr(self, '_guided_model', None)
            if gm is not None:
                self.last_model = gm
                self._guided_model = None
            else:
                self.last_model = self.solver.model()
        return r == z3.sat

    def _guided(self, assumptions):
        """satisfiability by guessing: fix the input atoms to small rationals; sat answers are genuine"""
        import random
        rnd = random.Random(4711)
        terms = list(self.input_terms.values())
        if not terms:
            return z3.unknown
        for k in range(40):
            self.solver.push()
            try:
                for t in terms:
                    if z3.is_int(t):
                        self.solver.add(t == rnd.randint(-3, 3))
                    else:
                        self.solver.add(t == z3.RealVal("%d/%d" % (rnd.randint(-6, 6), rnd.choice((1, 1, 2, 3)))))
                self.solver.set('timeout', 3000)
                rr = self.solver.check(*assumptions)
                self.solver.set('timeout', self.timeout_ms)
                if rr == z3.sat:
                    self.stats['guided_models'] = self.stats.get('guided_models', 0) + 1
                    self._guided_model = self.solver.model()
                    return z3.sat
            finally:
                self.solver.pop()
        return z3.unknown

    def _ensure_model(self):
        if self.model is None:
            if not self._check():
                raise PathInfeasible()
            self.model = self.last_model
        return self.model

    # ---- variables
    def fresh_name(self, base):
        self.fresh_counter += 1
        return "%s!%d" % (base, self.fresh_counter)

    def real(self, name):
        t = z3.Real(name)
        self.input_terms[name] = t
        return SV(Poly.atom(ATOMS.get(t)), None, False)

    def int(self, name):
        t = z3.Int(name)
        self.input_terms[name] = t
        return SV(Poly.atom(ATOMS.get(t)), None, True)

    def bool(self, name):
        return SB(z3.Bool(name))

    def atom(self, term):
        return SV(Poly.atom(ATOMS.get(term)), None, z3.is_int(term))

    # ---- facts (reset on every path, re-established by re-execution)
    def note_fact(self, fact, result):
        idx, rel = fact
        if not result:
            rel = _NEGREL[rel]
        old = self.facts.get(idx)
        # keep the strongest useful information
        if rel == '==':
            self.facts[idx] = 'zero'
        elif rel == '!=':
            if old not in ('pos', 'neg'):
                self.facts[idx] = 'nz'
        elif rel == '>':
            self.facts[idx] = 'pos'
        elif rel == '<':
            self.facts[idx] = 'neg'
        elif rel == '>=':
            if old == 'nz':
                self.facts[idx] = 'pos'
        elif rel == '<=':
            if old == 'nz':
                self.facts[idx] = 'neg'

    def fold(self, diff, rel):
        """decide `diff rel 0` from recorded facts when diff is a single
        monomial whose atoms all have known sign / non-zero-ness"""
        if len(diff.d) != 1 or not self.facts:
            return None
        (m, c), = diff.d.items()
        if not m:
            return None
        sign = 1 if c > 0 else -1
        known_sign = True
        for (i, e) in m:
            f = self.facts.get(i)
            if f is None:
                return None
            if f == 'zero':
                self.stats['folded'] += 1
                return _CONCREL[rel](0, 0)
            if f == 'nz':
                if e % 2 == 1:
                    known_sign = False
            elif f == 'neg':
                if e % 2 == 1:
                    sign = -sign
        if rel == '!=':
            self.stats['folded'] += 1
            return True
        if rel == '==':
            self.stats['folded'] += 1
            return False
        if known_sign:
            self.stats['folded'] += 1
            return _CONCREL[rel](sign, 0)
        return None

    def known(self, term):
        """truth value of a term already decided on this path, else None"""
        c = self.cache.get(term.get_id())
        if c is not None:
            return c
        if z3.is_not(term):
            c = self.cache.get(term.arg(0).get_id())
            if c is not None:
                return not c
        return None

    # ---- assumptions
    def assume(self, cond):
        """add a precondition to the path condition"""
        if cond is True:
            return
        if cond is False:
            raise PathInfeasible()
        t = cond.t if isinstance(cond, SB) else cond
        if isinstance(cond, SB) and cond.fact is not None:
            self.note_fact(cond.fact, True)
        if self.pos < len(self.stack):
            return  # still in the replayed prefix: already in the solver
        self.solver.add(t)
        if self.model is not None:
            ev = self.model.eval(t, model_completion=True)
            if not z3.is_true(ev):
                self.model = None
        self.cache[t.get_id()] = True

    def assume_lazy(self, cond):
        """a hypothesis that is part of every PROPERTY query of this path (antecedent) but not of
        the feasibility queries: used for stub axioms that are expensive to satisfy constructively
        (the factor L L^T = C of multivariate_normal).  Exploring a path that is infeasible under
        the hypothesis is harmless: its property queries are then vacuously unsat."""
        if cond is True:
            return
        t = cond.t if isinstance(cond, SB) else cond
        if cond is False:
            t = z3.BoolVal(False)
        self.lemmas.append(t)

    # ---- decisions
    def decide(self, term):
        if z3.is_true(term):
            return True
        if z3.is_false(term):
            return False
        key = term.get_id()
        c = self.cache.get(key)
        if c is not None:
            return c
        if z3.is_not(term):
            c = self.cache.get(term.arg(0).get_id())
            if c is not None:
                return not c
        if self.pos < len(self.stack):
            ent = self.stack[self.pos]
            if ent.term.get_id() != key:
                raise EngineError("non-deterministic re-execution at decision %d:\n  recorded %s\n  now      %s"
                                  % (self.pos, ent.term, term))
            self.pos += 1
            self.stats['replayed'] += 1
            self.cache[key] = ent.value
            self._note_implied(ent)
            return ent.value
        # a new decision
        model = self._ensure_model()
        ev = model.eval(term, model_completion=True)
        if z3.is_true(ev):
            val = True
        elif z3.is_false(ev):
            val = False
        else:
            val = self._check(term)
            if val:
                self.model = self.last_model
        other = z3.Not(term) if val else term
        pending = self._check(other)
        self.stats['decisions'] += 1
        if not pending:
            self.stats['forced'] += 1
        self.solver.push()
        self.solver.add(term if val else z3.Not(term))
        ent = _Entry(term, val, pending)
        self.stack.append(ent)
        self.pos += 1
        if len(self.stack) > self.stats['max_depth']:
            self.stats['max_depth'] = len(self.stack)
        self.cache[key] = val
        self._note_implied(ent)
        return val

    def _note_implied(self, ent):
        if ent.value:
            imp = ent.imp_t
            if imp is None:
                imp = []
                _implied(ent.term, True, imp)
                ent.imp_t = imp
        else:
            imp = ent.imp_f
            if imp is None:
                imp = []
                _implied(ent.term, False, imp)
                ent.imp_f = imp
        c = self.cache
        for (i, v) in imp:
            c[i] = v

    def concretize(self, sv):
        """fork over all feasible values of an integer-valued SV"""
        if sv.is_const():
            return int(sv.const_value())
        t = sv.p.z3(as_int=True) if sv.q is None else None
        if t is None or not z3.is_int(t):
            t = z3.ToInt(sv.zterm())
        key = ('conc', t.get_id())
        c = self.cache.get(key)
        if c is not None:
            return c
        while True:
            if self.pos < len(self.stack):
                ent = self.stack[self.pos]
                v = ent.payload
                if v is None:
                    raise EngineError("non-deterministic re-execution (concretize) at %d: %s vs %s"
                                      % (self.pos, ent.term, t))
                eqt = (t == z3.IntVal(v))
            else:
                model = self._ensure_model()
                v = model.eval(t, model_completion=True).as_long()
                eqt = (t == z3.IntVal(v))
            n0 = len(self.stack)
            r = self.decide(eqt)
            if len(self.stack) > n0:
                self.stack[-1].payload = v
            if r:
                self.cache[key] = v
                return v

    def sign_of(self, poly):
        """decide the sign of a polynomial: -1, 0, 1"""
        z = poly.z3()
        r = self.fold(poly, '>')
        if r is None:
            r = self.decide(z > 0)
        if r:
            return 1
        r = self.fold(poly, '<')
        if r is None:
            r = self.decide(z < 0)
        if r:
            return -1
        return 0

    def sqrt(self, sv):
        """s >= 0 with s*s == sv (sv must be >= 0 on this path)"""
        if sv.is_const():
            return float(sv.const_value()) ** 0.5
        t = sv.zterm()
        key = t.get_id()
        ent = self.sqrt_cache.get(key)
        if ent is None:
            s = z3.Real("sqrt!%d" % len(self.sqrt_cache))
            ent = (t, s)
            self.sqrt_cache[key] = ent
        s = ent[1]
        ss = SV(Poly.atom(ATOMS.get(s)), None, False)
        if not (sv >= 0):
            raise Inconclusive("sqrt of a negative symbolic value (numpy would return nan)")
        self.assume(ss >= 0)
        self.assume(SB(s * s == t))
        return ss

    # ---- exploration
    def explore(self, fn, on_path_end=None):
        """run fn() on every feasible path.  fn returns a result object that
        is passed to on_path_end(result) while the path's solver state is
        still in place (so properties can be checked)."""
        while True:
            self.pos = 0
            self.cache = {}
            self.facts = {}
            self.path_assumes = 0
            self.lemmas = []
            self.input_terms = {}
            try:
                res = fn()
                if self.pos < len(self.stack):
                    raise EngineError("re-execution consumed fewer decisions than recorded")
                self.stats['paths'] += 1
                if on_path_end is not None:
                    on_path_end(res)
            except PathInfeasible:
                self.stats['infeasible_paths'] += 1
            if self.max_paths is not None and self.stats['paths'] >= self.max_paths:
                raise Inconclusive("path budget exhausted (%d)" % self.max_paths)
            # backtrack
            while self.stack and not self.stack[-1].pending:
                self.stack.pop()
                self.solver.pop()
            if not self.stack:
                return
            ent = self.stack[-1]
            self.solver.pop()
            self.solver.push()
            ent.value = not ent.value
            ent.pending = False
            self.solver.add(ent.term if ent.value else z3.Not(ent.term))
            self.model = None

    # ---- property queries (called at path end)
    def prove(self, phi):
        """returns None if pc => phi, else a model (counterexample)"""
        if phi is True:
            return None
        if isinstance(phi, SB):
            phi = phi.t
        if phi is False:
            phi = z3.BoolVal(False)
        if z3.is_true(phi):
            return None
        neg = z3.Not(phi)
        # 1. short attempt
        r = self._check_raw(neg, self.short_timeout_ms)
        if r == z3.sat:
            return self.solver.model()
        if r == z3.unsat:
            self._second_opinion(neg)
            return None
        # 2. unknown: guided search for a counterexample -- fix the input atoms to
        #    small rationals (the query becomes ground) ; a hit is a genuine model
        import random
        rnd = random.Random(12345)
        terms = list(self.input_terms.values())
        for k in range(40):
            self.solver.push()
            try:
                for t in terms:
                    if z3.is_int(t):
                        self.solver.add(t == rnd.randint(-3, 3))
                    else:
                        self.solver.add(t == z3.RealVal("%d/%d" % (rnd.randint(-6, 6), rnd.choice((1, 1, 2, 3)))))
                rr = self._check_raw(neg, 3000)
                if rr == z3.sat:
                    self.stats['guided_models'] = self.stats.get('guided_models', 0) + 1
                    return self.solver.model()
            finally:
                self.solver.pop()
        # 3. the full query with the long timeout
        if self._check(neg, *self.lemmas, kind='prop'):
            return self.last_model
        return None

    def _second_opinion(self, neg):
        """re-decide a sample of the discharged property queries with cvc5; a `sat` answer is a solver
        disagreement (inconclusive, exit 2); `unknown` / errors are counted and change nothing"""
        st = self.stats
        n = st.get('unsat_props', 0)
        st['unsat_props'] = n + 1
        budget = CROSS_BUDGET
        if budget <= 0 or st.get('cross_checked', 0) >= budget or (n % CROSS_EVERY) != (CROSS_OFFSET % CROSS_EVERY):
            return
        from symx import second
        t0 = time.time()
        text = second.export(list(self.solver.assertions()) + list(self.lemmas) + [neg])
        r = second.cvc5_check(text, 3000)
        st['cross_s'] = st.get('cross_s', 0.0) + time.time() - t0
        st['cross_checked'] = st.get('cross_checked', 0) + 1
        if r == 'unsat':
            st['cross_agree'] = st.get('cross_agree', 0) + 1
        elif r == 'sat':
            raise Inconclusive("solver disagreement: z3 unsat, cvc5 sat on a property query")
        elif r == 'unknown':
            st['cross_unknown'] = st.get('cross_unknown', 0) + 1
        else:
            st['cross_error'] = st.get('cross_error', 0) + 1
            self.cross_errors = (getattr(self, 'cross_errors', []) + [r])[:3]

    def _check_raw(self, assumption, timeout_ms):
        self.solver.set('timeout', timeout_ms)
        t0 = time.time()
        try:
            r = self.solver.check(assumption, *self.lemmas)
        finally:
            self.solver.set('timeout', self.timeout_ms)
        self.stats['solver_s'] += time.time() - t0
        self.stats['solver_calls'] += 1
        self.stats['prop_queries'] += 1
        return r

    def satisfiable(self, phi):
        """is pc and phi satisfiable? returns model or None"""
        if isinstance(phi, SB):
            phi = phi.t
        if phi is True:
            phi = z3.BoolVal(True)
        if phi is False:
            return None
        if self._check(phi, *self.lemmas, kind='prop', guided=True):
            return self.last_model
        return None

    def path_condition(self):
        return list(self.solver.assertions())


def model_value(model, x):
    """evaluate a (possibly symbolic) scalar under a model -> Fraction/int/bool"""
    if isinstance(x, SB):
        return z3.is_true(model.eval(x.t, model_completion=True))
    if isinstance(x, SV):
        num = _eval_poly(model, x.p)
        if x.q is not None:
            num = Fraction(num) / _eval_poly(model, x.q)
        return _norm(num)
    return x


def _eval_term(model, t):
    v = model.eval(t, model_completion=True)
    if z3.is_int_value(v):
        return v.as_long()
    if z3.is_rational_value(v):
        return _norm(Fraction(v.numerator_as_long(), v.denominator_as_long()))
    if z3.is_algebraic_value(v):
        a = v.approx(30)
        return _norm(Fraction(a.numerator_as_long(), a.denominator_as_long()))
    raise Inconclusive("cannot evaluate %s in model: %s" % (t, v))


def _eval_poly(model, p):
    tot = 0
    for m, c in p.d.items():
        v = c
        for (i, e) in m:
            v = v * (_eval_term(model, ATOMS.terms[i]) ** e)
        tot = tot + v
    return _norm(tot)


# --------------------------------------------------------------------------
# affine decomposition (used by oracles: "the output is affine in these atoms")

def atom_index(sv):
    """atom index of an SV that is a plain atom, else None"""
    if isinstance(sv, SV) and sv.q is None and len(sv.p.d) == 1:
        (m, c), = sv.p.d.items()
        if len(m) == 1 and m[0][1] == 1 and c == 1:
            return m[0][0]
    return None


def linear_coeffs(x, atom_idxs):
    """decompose x = c0 + sum_k c_k * atom_k  (coefficients free of the atoms).
    returns (c0, {idx: c_k}) or None if x is not affine in the atoms.
    x: python number or SV; atoms must not occur in the denominator."""
    if not isinstance(x, SV):
        return (x, {})
    aset = set(atom_idxs)
    if x.q is not None and (x.q.atoms() & aset):
        return None
    const = {}
    lin = {i: {} for i in atom_idxs}
    for m, c in x.p.d.items():
        hit = [(i, e) for (i, e) in m if i in aset]
        if not hit:
            const[m] = c
        elif len(hit) == 1 and hit[0][1] == 1:
            rest = tuple(f for f in m if f[0] != hit[0][0])
            lin[hit[0][0]][rest] = c
        else:
            return None
    def mk(d):
        return SV(Poly(d), x.q, False) if d else 0
    return (mk(const), {i: mk(d) for i, d in lin.items()})
