"""Second opinion: re-decide a sampled property query with cvc5 (Python API, SMT-LIB2 text exported by z3)."""
import z3


def export(assertions):
    s = z3.Solver()
    for a in assertions:
        s.add(a)
    return s.to_smt2()


def cvc5_check(text, timeout_ms=5000):
    """'sat' | 'unsat' | 'unknown' | 'error: ...'"""
    try:
        import cvc5
    except ImportError as ex:
        return 'error: cvc5 not importable (%s)' % ex
    try:
        slv = cvc5.Solver()
        slv.setOption('tlimit-per', str(int(timeout_ms)))
        slv.setLogic('ALL')
        p = cvc5.InputParser(slv)
        p.setStringInput(cvc5.InputLanguage.SMT_LIB_2_6, text, 'query')
        sm = p.getSymbolManager()
        res = None
        while True:
            c = p.nextCommand()
            if c.isNull():
                break
            out = c.invoke(slv, sm)
            o = str(out).strip()
            if '(error' in o:
                return 'error: ' + o[:200]
            if o in ('sat', 'unsat', 'unknown'):
                res = o
        return res or 'error: no answer'
    except Exception as ex:
        return 'error: %s: %s' % (type(ex).__name__, str(ex)[:200])
