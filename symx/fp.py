"""Bit-precise IEEE-754 binary64 scalars (z3 FloatingPoint terms, round-nearest-even).

Used only where rounding is the subject (the ratio-sum test of utils.split_data):
an FPV flows through the unmodified source like a Python float; arithmetic builds
QF_FP terms, comparisons return symbolic booleans decided by the engine."""
from fractions import Fraction
import z3
from symx.core import SB, Inconclusive

F64 = z3.Float64()
RNE = z3.RNE()


def _lift(o):
    if isinstance(o, FPV):
        return o.t
    if isinstance(o, bool):
        o = int(o)
    if isinstance(o, (int, float, Fraction)):
        return z3.FPVal(float(o), F64)
    return None


class FPV:
    __slots__ = ('t',)
    __array_priority__ = 0

    def __init__(self, t):
        self.t = t

    def _bin(self, o, f, swap=False):
        b = _lift(o)
        if b is None:
            return NotImplemented
        return FPV(f(RNE, b, self.t) if swap else f(RNE, self.t, b))

    def __add__(self, o): return self._bin(o, z3.fpAdd)

    def __radd__(self, o):
        if isinstance(o, int) and not isinstance(o, bool) and o == 0:
            return self          # 0 + x == x (x is never -0.0 here)
        return self._bin(o, z3.fpAdd, True)

    def __sub__(self, o): return self._bin(o, z3.fpSub)
    def __rsub__(self, o): return self._bin(o, z3.fpSub, True)
    def __mul__(self, o): return self._bin(o, z3.fpMul)
    def __rmul__(self, o): return self._bin(o, z3.fpMul, True)
    def __truediv__(self, o): return self._bin(o, z3.fpDiv)
    def __rtruediv__(self, o): return self._bin(o, z3.fpDiv, True)
    def __neg__(self): return FPV(z3.fpNeg(self.t))
    def __pos__(self): return self
    def __abs__(self): return FPV(z3.fpAbs(self.t))

    def _cmp(self, o, f):
        b = _lift(o)
        if b is None:
            return NotImplemented
        return SB(f(self.t, b))

    def __lt__(self, o): return self._cmp(o, z3.fpLT)
    def __le__(self, o): return self._cmp(o, z3.fpLEQ)
    def __gt__(self, o): return self._cmp(o, z3.fpGT)
    def __ge__(self, o): return self._cmp(o, z3.fpGEQ)
    def __eq__(self, o): return self._cmp(o, z3.fpEQ)
    def __ne__(self, o): return self._cmp(o, z3.fpNEQ)
    __hash__ = None

    def __float__(self):
        raise Inconclusive("concrete float requested from a symbolic binary64 value")

    def __round__(self, nd=None):
        raise Inconclusive("round() of a symbolic binary64 value")

    def __deepcopy__(self, memo): return self
    def __copy__(self): return self

    def __repr__(self):
        return "FPV(%s)" % (self.t,)


def model_float(model, x):
    """python float of an FPV under a model"""
    v = model.eval(x.t, model_completion=True)
    s = str(v)
    import re
    if z3.is_fp_value(v):
        sign = v.sign()
        if v.isNaN():
            return float('nan')
        if v.isInf():
            return float('-inf') if sign else float('inf')
        sig = Fraction(v.significand_as_long(), 2 ** (v.sbits() - 1))
        if v.isSubnormal():
            val = sig * Fraction(2) ** (2 - 2 ** (v.ebits() - 1))
        elif v.isZero():
            val = Fraction(0)
        else:
            e = v.exponent_as_long(biased=False)
            val = (1 + sig) * (Fraction(2) ** e)
        return float(-val if sign else val)
    raise Inconclusive("cannot evaluate FP term in model: %s" % s)
