"""Loads the repository's *current* source as a symbolic twin.

Every call reads the .py files from the working tree, compiles them unchanged
and executes them in fresh module objects whose `import numpy` resolves to the
symnp shim (pandas / rpy2 to the stubs).  Optional in-memory text patches are
used only by the mutation self-test.
"""
import builtins
import os
import sys
import types

import symnp
from symx.core import SV, SB, Inconclusive

REPO = os.environ.get('VERIF_REPO', '/repo')

_FILES = {
    'sempler': 'sempler/__init__.py',
    'sempler.utils': 'sempler/utils.py',
    'sempler.functions': 'sempler/functions.py',
    'sempler.noise': 'sempler/noise.py',
    'sempler.normal_distribution': 'sempler/normal_distribution.py',
    'sempler.lganm': 'sempler/lganm.py',
    'sempler.anm': 'sempler/anm.py',
    'sempler.generators': 'sempler/generators.py',
    'sempler.semi': 'sempler/semi.py',
    'drf': 'drf/__init__.py',
    'drf.code': 'drf/code.py',
}


def _sym_type(*a):
    if len(a) == 1:
        x = a[0]
        if isinstance(x, SV):
            return int if x.isint else float
        if isinstance(x, SB):
            return bool
        return type(x)
    return type(*a)


def _sym_isinstance(x, cls):
    if isinstance(x, SV):
        c = cls if isinstance(cls, tuple) else (cls,)
        t = int if x.isint else float
        for k in c:
            if k is t or k is object or k is SV:
                return True
            if k is float and False:
                return True
        return False
    if isinstance(x, SB):
        c = cls if isinstance(cls, tuple) else (cls,)
        return bool in c or int in c or object in c or SB in c
    return isinstance(x, cls)


def _noprint(*a, **k):
    return None


class Twin:
    """the symbolic twin of the repository (sempler + drf)"""

    def __init__(self, repo=None, patches=None, extra_modules=None, trace=True):
        self.repo = repo or REPO
        self.patches = patches or []   # list of (relpath, old, new)
        self.modules = {}
        self.sources = {}
        self.executed = set()          # qualified names of repo functions executed
        self.extra = {'numpy': symnp, 'numpy.linalg': symnp.linalg, 'numpy.random': symnp.random}
        if extra_modules:
            self.extra.update(extra_modules)
        self._trace = trace
        self._codes = []
        b = dict(builtins.__dict__)
        b['__import__'] = self._import
        b['type'] = _sym_type
        b['isinstance'] = _sym_isinstance
        b['print'] = _noprint
        self.builtins = b
        self.applied_patches = 0

    # -- import hook
    def _import(self, name, globals=None, locals=None, fromlist=(), level=0):
        if level > 0:
            pkg = (globals or {}).get('__package__') or ''
            parts = pkg.split('.')
            if level > 1:
                parts = parts[:-(level - 1)]
            base = '.'.join(parts)
            name = base + ('.' + name if name else '')
        top = name.split('.')[0]
        if top in ('sempler', 'drf'):
            mod = self.load(name)
            if fromlist:
                for f in fromlist:
                    sub = name + '.' + f
                    if sub in _FILES and not hasattr(mod, f):
                        self.load(sub)
                return mod
            return self.load(top)
        if name in self.extra or top in self.extra:
            if name in self.extra:
                mod = self.extra[name]
            else:
                mod = self.extra[top]
            if fromlist:
                return mod
            return self.extra.get(top, mod)
        if top in ('numpy', 'pandas', 'rpy2', 'scipy', 'matplotlib'):
            if top == 'numpy':
                return symnp
            raise ImportError("No module named %r (not provided to the symbolic twin)" % name)
        return builtins.__import__(name, globals, locals, fromlist, level)

    def source(self, modname):
        rel = _FILES[modname]
        with open(os.path.join(self.repo, rel)) as f:
            src = f.read()
        for (prel, old, new) in self.patches:
            if prel == rel:
                if src.count(old) != 1:
                    raise Inconclusive("mutant patch does not apply uniquely to %s" % rel)
                src = src.replace(old, new)
                self.applied_patches += 1
        return src, os.path.join(self.repo, rel)

    def load(self, modname):
        m = self.modules.get(modname)
        if m is not None:
            return m
        if modname not in _FILES:
            raise ImportError("No module named %r" % modname)
        # parents first
        if '.' in modname:
            parent = modname.rsplit('.', 1)[0]
            self.load(parent)
        src, path = self.source(modname)
        self.sources[modname] = src
        m = types.ModuleType(modname)
        m.__file__ = path
        ispkg = _FILES[modname].endswith('__init__.py')
        m.__package__ = modname if ispkg else modname.rsplit('.', 1)[0]
        if ispkg:
            m.__path__ = [os.path.dirname(path)]
        m.__dict__['__builtins__'] = self.builtins
        m.__dict__['__name__'] = 'sym_' + modname
        self.modules[modname] = m
        code = compile(src, path, 'exec')
        if self._trace:
            self._register(code)
        if '.' in modname:
            setattr(self.modules[modname.rsplit('.', 1)[0]], modname.rsplit('.', 1)[1], m)
        try:
            exec(code, m.__dict__)
        except BaseException:
            # do not leave a half-initialised module behind
            self.modules.pop(modname, None)
            if '.' in modname:
                par = self.modules.get(modname.rsplit('.', 1)[0])
                if par is not None and getattr(par, modname.rsplit('.', 1)[1], None) is m:
                    delattr(par, modname.rsplit('.', 1)[1])
            raise
        return m

    # -- which repo functions were executed (sys.monitoring, python >= 3.12)
    def _register(self, code):
        mon = getattr(sys, 'monitoring', None)
        if mon is None:
            return
        tool = _tool_id()
        if tool is None:
            return
        stack = [code]
        while stack:
            c = stack.pop()
            for k in c.co_consts:
                if isinstance(k, types.CodeType):
                    stack.append(k)
                    if k.co_name not in ('<lambda>', '<listcomp>', '<genexpr>', '<dictcomp>', '<setcomp>'):
                        try:
                            mon.set_local_events(tool, k, mon.events.PY_START)
                            _CODE_OWNER[k] = self
                        except Exception:
                            pass

    def __getitem__(self, modname):
        return self.load(modname)


_CODE_OWNER = {}
_TOOL = [None, False]


def _tool_id():
    if _TOOL[1]:
        return _TOOL[0]
    _TOOL[1] = True
    mon = sys.monitoring
    for tid in (3, 4, 2, 1):
        try:
            mon.use_tool_id(tid, 'symx')
            _TOOL[0] = tid
            break
        except Exception:
            continue
    if _TOOL[0] is not None:
        def on_start(code, offset):
            tw = _CODE_OWNER.get(code)
            if tw is not None:
                fn = os.path.relpath(code.co_filename, tw.repo)
                tw.executed.add("%s:%s" % (fn, getattr(code, 'co_qualname', code.co_name)))
            return mon.DISABLE
        mon.register_callback(_TOOL[0], mon.events.PY_START, on_start)
    return _TOOL[0]
