"""Declarative graph oracles as z3 formulas over the input atoms only.

All functions take `nz`, a p x p matrix of (z3 Bool | python bool) saying
whether entry (i, j) of the input is non-zero, and build formulas from the
*definitions* in the property statements (not by calling sempler).
Python booleans are folded so that decided patterns give small formulas.
"""
import itertools
import z3
from symx.core import SB, SV, zbool


def T(x):
    """normalise to python bool or z3 BoolRef"""
    if isinstance(x, SB):
        x = x.t
    if isinstance(x, z3.BoolRef):
        if z3.is_true(x):
            return True
        if z3.is_false(x):
            return False
        return x
    if isinstance(x, SV):
        return T(x != 0)
    return bool(x)


def And(*xs):
    if len(xs) == 1 and isinstance(xs[0], (list, tuple)):
        xs = xs[0]
    out = []
    for x in xs:
        x = T(x)
        if x is False:
            return False
        if x is True:
            continue
        out.append(x)
    if not out:
        return True
    if len(out) == 1:
        return out[0]
    return z3.And(out)


def Or(*xs):
    if len(xs) == 1 and isinstance(xs[0], (list, tuple)):
        xs = xs[0]
    out = []
    for x in xs:
        x = T(x)
        if x is True:
            return True
        if x is False:
            continue
        out.append(x)
    if not out:
        return False
    if len(out) == 1:
        return out[0]
    return z3.Or(out)


def Not(x):
    x = T(x)
    if x is True:
        return False
    if x is False:
        return True
    return z3.Not(x)


def Implies(a, b):
    return Or(Not(a), b)


def Iff(a, b):
    a, b = T(a), T(b)
    if a is True:
        return b
    if a is False:
        return Not(b)
    if b is True:
        return a
    if b is False:
        return Not(a)
    return a == b


def Z(x):
    """to a z3 BoolRef (for solver calls)"""
    x = T(x)
    if x is True:
        return z3.BoolVal(True)
    if x is False:
        return z3.BoolVal(False)
    return x


def nz_matrix(A):
    """A: list of lists of scalars (python numbers / SV) -> nz matrix"""
    return [[T(x != 0) for x in row] for row in A]


def directed(nz, i, j):
    return And(nz[i][j], Not(nz[j][i]))


def undirected(nz, i, j):
    return And(nz[i][j], nz[j][i])


def adjacent(nz, i, j):
    return Or(nz[i][j], nz[j][i])


def closure(edge):
    """reflexive-free transitive closure (Warshall, unrolled) of a p x p
    matrix of formulas: reach[i][j] <=> there is a path of length >= 1"""
    p = len(edge)
    r = [[edge[i][j] for j in range(p)] for i in range(p)]
    for k in range(p):
        r = [[Or(r[i][j], And(r[i][k], r[k][j])) for j in range(p)] for i in range(p)]
    return r


def acyclic(nz):
    """no directed cycle in the graph of non-zero entries (self-loops and
    two-cycles are cycles)"""
    p = len(nz)
    r = closure(nz)
    return Not(Or([r[i][i] for i in range(p)]))


def is_topological_order(nz, order):
    """order: list of concrete ints.  permutation of 0..p-1 with every edge
    pointing forward"""
    p = len(nz)
    if sorted(order) != list(range(p)):
        return False
    pos = {v: k for k, v in enumerate(order)}
    return And([Implies(nz[i][j], pos[i] < pos[j]) for i in range(p) for j in range(p)])


def vstruct(nz, i, c, j):
    return And(directed(nz, i, c), directed(nz, j, c), Not(adjacent(nz, i, j)))


def all_vstructs(p):
    return [(i, c, j) for c in range(p) for i in range(p) for j in range(i + 1, p) if i != c and j != c]


# ---- concrete-candidate helpers (the skeleton is decided on the path) ---------

def concrete_nz(M):
    return [[bool(x != 0) for x in row] for row in M]


def c_skeleton(nz):
    p = len(nz)
    return frozenset((i, j) for i in range(p) for j in range(i + 1, p) if nz[i][j] or nz[j][i])


def c_is_acyclic(nz):
    p = len(nz)
    if any(nz[i][i] for i in range(p)):
        return False
    indeg = [sum(1 for i in range(p) if nz[i][j]) for j in range(p)]
    left = set(range(p))
    while left:
        src = [j for j in left if indeg[j] == 0]
        if not src:
            return False
        for s in src:
            left.discard(s)
            for j in range(p):
                if nz[s][j]:
                    indeg[j] -= 1
    return True


def c_vstructs(nz):
    p = len(nz)
    out = set()
    for c in range(p):
        pa = [i for i in range(p) if nz[i][c] and not nz[c][i]]
        for a, b in itertools.combinations(pa, 2):
            if not (nz[a][b] or nz[b][a]):
                out.add((min(a, b), c, max(a, b)))
    return frozenset(out)


def orientations(p, skeleton_edges):
    """all DAGs (as 0/1 tuple-of-tuples) whose skeleton is the given edge set"""
    edges = sorted(skeleton_edges)
    out = []
    for bits in itertools.product((0, 1), repeat=len(edges)):
        M = [[0] * p for _ in range(p)]
        for (i, j), b in zip(edges, bits):
            if b:
                M[i][j] = 1
            else:
                M[j][i] = 1
        nz = [[bool(x) for x in r] for r in M]
        if c_is_acyclic(nz):
            out.append(tuple(tuple(r) for r in M))
    return out


def c_markov_equivalent(nzA, nzB):
    return c_skeleton(nzA) == c_skeleton(nzB) and c_vstructs(nzA) == c_vstructs(nzB)


def c_is_consistent_extension(D, P):
    """D: DAG nz, P: PDAG nz (both concrete bool matrices)"""
    p = len(P)
    if not c_is_acyclic(D):
        return False
    if c_skeleton(D) != c_skeleton(P):
        return False
    for i in range(p):
        for j in range(p):
            if P[i][j] and not P[j][i] and not D[i][j]:
                return False
    return c_vstructs(D) == c_vstructs(P)


def all_dags(p):
    """all DAG 0/1 matrices on p labelled nodes"""
    pairs = [(i, j) for i in range(p) for j in range(i + 1, p)]
    out = []
    for states in itertools.product((0, 1, 2), repeat=len(pairs)):
        M = [[0] * p for _ in range(p)]
        for (i, j), s in zip(pairs, states):
            if s == 1:
                M[i][j] = 1
            elif s == 2:
                M[j][i] = 1
        if c_is_acyclic([[bool(x) for x in r] for r in M]):
            out.append(tuple(tuple(r) for r in M))
    return out


def all_pdags(p, acyclic_directed_part=True):
    """all PDAG 0/1 matrices (pair states none / -> / <- / --) whose directed
    part is acyclic"""
    pairs = [(i, j) for i in range(p) for j in range(i + 1, p)]
    out = []
    for states in itertools.product((0, 1, 2, 3), repeat=len(pairs)):
        M = [[0] * p for _ in range(p)]
        D = [[False] * p for _ in range(p)]
        for (i, j), s in zip(pairs, states):
            if s == 1:
                M[i][j] = 1
                D[i][j] = True
            elif s == 2:
                M[j][i] = 1
                D[j][i] = True
            elif s == 3:
                M[i][j] = 1
                M[j][i] = 1
        if (not acyclic_directed_part) or c_is_acyclic(D):
            out.append(tuple(tuple(r) for r in M))
    return out
