"""Specification of the intervened linear-Gaussian SCM, written from the property
statement (C01): a do-target loses its incoming edges and takes the given mean /
variance; a noise-target has its noise replaced; a shift-target has the given mean and
variance added to its noise; on a shared target do overrides noise overrides shift; a
scalar parameter means a point mass (variance 0)."""


def param(v):
    """(mean, variance) of an intervention parameter: tuple (m, v) or scalar m (point mass)"""
    if isinstance(v, tuple):
        return v[0], v[1]
    return v, 0


def intervened(W, means, variances, do=None, noise=None, shift=None):
    """returns (W', mu', D') as nested lists of scalars (symbolic or concrete)"""
    p = len(W)
    do = do or {}
    noise = noise or {}
    shift = shift or {}
    Wp = [[W[i][j] for j in range(p)] for i in range(p)]
    mu = list(means)
    D = list(variances)
    for j in range(p):
        if j in do:
            m, v = param(do[j])
            mu[j], D[j] = m, v
            for i in range(p):
                Wp[i][j] = 0
        elif j in noise:
            m, v = param(noise[j])
            mu[j], D[j] = m, v
        elif j in shift:
            m, v = param(shift[j])
            mu[j], D[j] = mu[j] + m, D[j] + v
    return Wp, mu, D


def structural_clauses(Wp, mu, D, mean, cov, eq):
    """the law of the solution X of  X = W'^T X + N,  N ~ N(mu', diag D'):
         (I - W'^T) E[X] = mu'      and      (I - W'^T) Cov[X] (I - W') = diag(D')
    (I - W'^T is unit-triangular up to a permutation, so the solution is unique).
    eq(name, lhs, rhs) collects clauses."""
    p = len(Wp)
    # M = I - W'^T :  M[i][k] = delta_ik - W'[k][i]
    def M(i, k):
        return (1 if i == k else 0) - Wp[k][i]
    for i in range(p):
        lhs = 0
        for k in range(p):
            m = M(i, k)
            if not _zero(m):
                lhs = lhs + m * mean[k]
        eq('structural equation for the mean of X%d' % i, lhs, mu[i])
    # T = M cov ; R = T M^T
    T = [[_dot([M(i, k) for k in range(p)], [cov[k][j] for k in range(p)]) for j in range(p)] for i in range(p)]
    for i in range(p):
        for j in range(p):
            r = _dot(T[i], [M(j, k) for k in range(p)])
            eq('residual covariance (%d,%d)' % (i, j), r, D[i] if i == j else 0)


def _zero(x):
    return isinstance(x, (int, float)) and x == 0


def _dot(a, b):
    s = 0
    for x, y in zip(a, b):
        if _zero(x) or _zero(y):
            continue
        s = s + x * y
    return s
