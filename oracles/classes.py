"""Concrete brute-force oracles for Markov / interventional equivalence classes and
consistent extensions, written from the definitions in the property statements and
independent of sempler.  Graphs are 0/1 tuple-of-tuples."""
import functools
from oracles import graph as G


def nzb(M):
    return [[bool(x) for x in r] for r in M]


@functools.lru_cache(maxsize=None)
def _orients(p, skel):
    return tuple(G.orientations(p, skel))


@functools.lru_cache(maxsize=None)
def mec(A):
    """all DAGs with the same skeleton and v-structures as DAG A"""
    p = len(A)
    nA = nzb(A)
    sk = G.c_skeleton(nA)
    vs = G.c_vstructs(nA)
    return tuple(D for D in _orients(p, sk) if G.c_vstructs(nzb(D)) == vs)


@functools.lru_cache(maxsize=None)
def extensions(P):
    """all consistent extensions of PDAG P: acyclic, same skeleton, every directed edge kept, same v-structures"""
    p = len(P)
    nP = nzb(P)
    sk = G.c_skeleton(nP)
    vs = G.c_vstructs(nP)
    out = []
    for D in _orients(p, sk):
        nD = nzb(D)
        if any(nP[i][j] and not nP[j][i] and not nD[i][j] for i in range(p) for j in range(p)):
            continue
        if G.c_vstructs(nD) == vs:
            out.append(D)
    return tuple(out)


def parents(D, t):
    return frozenset(i for i in range(len(D)) if D[i][t] and not D[t][i])


def imec(A, I):
    """members of A's MEC in which every target has the same parents as in A"""
    return tuple(D for D in mec(A) if all(parents(D, t) == parents(A, t) for t in I))


def union_graph(dags, p):
    """essential graph of a set of DAGs with a common skeleton: entry 1 iff some member has the edge"""
    return tuple(tuple(1 if any(D[i][j] for D in dags) else 0 for j in range(p)) for i in range(p))


def as_tuple(M):
    """shim / numpy 2-d array or nested list -> tuple of tuples of python numbers"""
    if hasattr(M, 'tolist'):
        M = M.tolist()
    return tuple(tuple(x for x in r) for r in M)


def stack_to_set(R):
    """3-d result (array or list of 2-d) -> (list of 0/1 tuple matrices, all_entries_01)"""
    mats = []
    ok01 = True
    if hasattr(R, 'shape') and len(R.shape) == 1 and R.shape[0] == 0:
        return [], True
    for M in R:
        t = as_tuple(M)
        for r in t:
            for x in r:
                if not (x == 0 or x == 1):
                    ok01 = False
        mats.append(tuple(tuple(1 if x != 0 else 0 for x in r) for r in t))
    return mats, ok01
