#!/bin/bash
# run_benign.sh <name> <patch.diff> [checks...]: apply a (supposedly property-preserving) patch to a scratch worktree of /repo
# and run the quick tier of the given checks (default: all 20) against it.  exit 1 of a check = alarm (a false alarm if the
# patch really preserves the property), exit 2 = inconclusive (e.g. numpy API outside the shim), exit 0 = holds.
name=$1; patch=$2; shift 2
checks=${@:-C01 C02 C03 C04 C05 C06 C07 C08 C09 C10 C11 C12 C13 C14 C15 C16 C17 C18 C19 C20}
wt=/tmp/benign_wt_$name
git -C /repo worktree remove --force $wt 2>/dev/null
git -C /repo worktree add -q --detach $wt HEAD || exit 2
git -C $wt apply $patch || { echo "$name: patch does not apply"; git -C /repo worktree remove --force $wt; exit 2; }
for c in $checks; do
  out=$(VERIF_REPO=$wt VERIF_NO_EVIDENCE=1 VERIF_REPLAY_DIR=/tmp/benign_replays VERIF_BUDGET_S=1500 timeout 1700 /verif/vcheck $c --tier quick 2>&1)
  rc=$?
  echo "$name $c exit=$rc $(echo "$out" | tail -1 | cut -c1-120)"
  if [ $rc -ne 0 ]; then echo "$out" | grep -E "VIOLATION|INCONCLUSIVE|obligation=" | head -4 | cut -c1-400; fi
done
git -C /repo worktree remove --force $wt
