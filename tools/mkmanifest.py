#!/venv/bin/python
"""regenerate /verif/MANIFEST.json from the harness modules' META (single source of truth)"""
import importlib
import json
import os
import sys

VERIF = os.path.dirname(os.path.dirname(os.path.abspath(__file__)))
sys.path.insert(0, VERIF)
sys.path.append(os.path.join(VERIF, '.deps'))

NOT_APPLICABLE = {
}

props = [json.loads(l) for l in open(os.path.join(VERIF, 'properties.jsonl'))]
checks = []
na = []
for p in props:
    pid = p['id']
    path = os.path.join(VERIF, 'harness', pid + '.py')
    if pid in NOT_APPLICABLE:
        na.append(dict(property_id=pid, reason=NOT_APPLICABLE[pid]))
        continue
    if not os.path.exists(path):
        na.append(dict(property_id=pid, reason="check under construction (not yet claimed)"))
        continue
    mod = importlib.import_module('harness.' + pid)
    M = mod.META
    checks.append(dict(
        property_id=pid,
        quick_cmd="./vcheck %s --tier quick" % pid,
        thorough_cmd="./vcheck %s --tier thorough" % pid,
        evidence_file="evidence/%s.json" % pid,
        replay_cmd_template="./vcheck replay {path}",
        engine="symx+symnp (z3)",
        level_claimed=dict(
            category="model_checking",
            text=("Bounded symbolic model checking of the unmodified source: " + M['explanation'] +
                  " BOUNDS quick: " + M['bounds']['quick'] + " | thorough: " + M['bounds']['thorough'] +
                  ". Within the bounds the verdict covers every value (all reals / all patterns / all RNG outcomes allowed by the stub "
                  "contracts); outside them nothing is claimed."),
            design_ref="DESIGN.md section 5, " + pid),
        level_note=("Stubs: " + "; ".join(M.get('stubs', [])) + ". Assumed: " + "; ".join(M.get('assumptions', [])) +
                    ". Outside the claim: " + "; ".join(M.get('outside', [])) + "."),
        technique="bounded symbolic execution of the real source (z3), solver-decided per path; counterexamples replayed on the real code",
    ))

manifest = dict(
    version=1,
    setup_cmd="/venv/bin/pip install -q --no-index --find-links /opt/veriftools/wheels --target /verif/.deps z3-solver cvc5 crosshair-tool",
    hooks=dict(guard="SEMPLER_VERIF",
               enable="none needed: the loader (symx/loader.py) reads /repo's working tree on every run and redirects `import numpy` of the unmodified source to the symnp shim; there is no hook in /repo",
               baseline_off_cmd="cd /repo && /venv/bin/python -m pytest -ra -q -p no:cacheprovider --timeout=900 --continue-on-collection-errors",
               source_commits=[], add_only=True),
    engines=[
        dict(name="symx+symnp", path="symx/ symnp/ harness/ oracles/",
             serves_properties=[c['property_id'] for c in checks],
             kind_free_text="forking symbolic executor on the z3 Python API running the unmodified /repo source through a pure-Python numpy shim over symbolic scalars; per-path differential validation against the real library"),
        dict(name="cvc5 second opinion", path="symx/second.py",
             serves_properties=[c['property_id'] for c in checks],
             kind_free_text="a sample of the discharged property queries (per cube every 37th, at most 2) is exported as SMT-LIB2 with its path condition and re-decided by cvc5; a `sat` answer is a solver disagreement (exit 2)"),
        dict(name="CrossHair audit", path="audit/",
             serves_properties=['C03', 'C12'],
             kind_free_text="thorough tier only: the real source of topological_ordering (C03) and intervention_targets (C12) re-checked by CrossHair (crosshair check --report_all) on its own symbolic floats / ints; result recorded in coverage.audit, a counterexample the primary engine did not find makes the run exit 2"),
    ],
    checks=checks,
    not_applicable=na,
    notes=("Exit codes of every check: 0 = held on everything explored; 1 = VIOLATION (replayed on the real code); 2 = inconclusive / harness "
           "error (never a verdict). known_findings.json lists genuine defects (all currently 'fixed' by fix: commits in /repo). "
           "`./vcheck selftest` (not part of quick/thorough) applies the mutants in mutants/ and the seeded changes in seeded/ to a SCRATCH "
           "worktree of /repo (never to /repo itself) one at a time and expects each to be reported; seeded changes recorded as documented blind spots "
           "(machine-arithmetic-only differences) are listed, not run."),
)
json.dump(manifest, open(os.path.join(VERIF, 'MANIFEST.json'), 'w'), indent=1)
print("claimed:", [c['property_id'] for c in checks])
print("not claimed:", [n['property_id'] for n in na])
