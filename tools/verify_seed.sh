#!/bin/bash
# verify_seed.sh <Cxx> [srcdir]: confirm a seeded change in a fresh scratch worktree:
#  (a) unchanged tree: demo passes; (b) with patch: demo fails; (c) with patch: full test-suite still passes (104)
# on success copies patch.diff/demo.py/notes.md to /verif/seeded/<id>/ (meta.json is written by hand afterwards)
set -u
id=$1; src=${2:-/tmp/seed_out/$id}; dest=${3:-$id}
wt=/tmp/vs_$id
git -C /repo worktree remove --force $wt 2>/dev/null
git -C /repo worktree add -q --detach $wt HEAD || exit 2
cd $wt
PYTHONPATH=$wt /venv/bin/python $src/demo.py > /tmp/vs_$id.clean.log 2>&1; a=$?
git apply $src/patch.diff || { echo "$id: patch does not apply"; git -C /repo worktree remove --force $wt; exit 2; }
PYTHONPATH=$wt /venv/bin/python $src/demo.py > /tmp/vs_$id.patched.log 2>&1; b=$?
/venv/bin/python -m pytest -q -p no:cacheprovider -n 6 --timeout=900 --continue-on-collection-errors > /tmp/vs_$id.tests.log 2>&1
t=$(tail -1 /tmp/vs_$id.tests.log)
cd /; git -C /repo worktree remove --force $wt
echo "$id: demo clean exit=$a patched exit=$b tests: $t"
if [ $a -eq 0 ] && [ $b -ne 0 ] && echo "$t" | grep -q "104 passed"; then
  mkdir -p /verif/seeded/$dest && cp $src/patch.diff $src/demo.py /verif/seeded/$dest/ && cp $src/notes.md /verif/seeded/$dest/notes.md 2>/dev/null
  echo "$id: CONFIRMED"
else
  echo "$id: NOT CONFIRMED"
fi
