#!/usr/bin/env python3
"""print the prompt given to a fresh sub-agent that seeds a breaking change for one property"""
import json, sys
pid = sys.argv[1]
rnd = sys.argv[2] if len(sys.argv) > 2 else ''
hint = sys.argv[3] if len(sys.argv) > 3 else ''
WT = '/tmp/wt_%s%s' % (pid, rnd)
OUT = '/tmp/seed_out/%s%s' % (pid, rnd)
for l in open('/verif/properties.jsonl'):
    d = json.loads(l)
    if d['id'] == pid:
        break
print(f"""You are helping to evaluate a verification effort for the Python library `sempler` (juangamella/sempler: sampling from linear-Gaussian and additive-noise structural causal models, DAG/CPDAG utilities, symbolic Gaussian conditioning).

You have your OWN scratch git worktree of the repository at {WT} . Work ONLY there. Never modify /repo, and do not read anything under /verif (it is off limits; your work must be independent of it).

The library is supposed to satisfy this property:

  Title: {d['title']}
  Statement: {d['statement']}
  Quantified over: {d['quantifier']['text']}
  Relevant files: {', '.join(d['anchors']['files'])}

YOUR TASK: produce ONE realistic change to the library source (under {WT}/sempler or {WT}/drf) that BREAKS this property, while the code still imports and the existing test-suite still passes. The change should look like something that could plausibly slip through code review (a refactoring gone slightly wrong, an "optimisation", an off-by-one, a dropped copy, a wrong tie-break, a changed comparison, ...). It must need something SPECIFIC to manifest - an unusual input (e.g. negative or cancelling weights, a particular graph shape with 4-5 nodes, a boundary value, seed 0, an integer-typed array, a particular order of arguments), a multi-step sequence of calls, or two cooperating sites that each look fine alone - NOT something that ordinary use or the existing tests would expose at once. Prefer subtle over blatant. {('An earlier reviewer already tried this, so do something DIFFERENT (another function, another mechanism): ' + hint) if hint else ''} Do not change tests. Do not add new dependencies.

How to run things (no network is available; everything needed is installed):
  * interpreter: /venv/bin/python  (numpy etc. installed). Run from inside the worktree so that the worktree's copy of `sempler` is imported:  cd {WT} && /venv/bin/python your_script.py
  * existing test-suite (must still pass, 104 tests pass on the unchanged tree, sempler/test/test_semi.py fails to import because rpy2 is absent - that is expected and unchanged):
      cd {WT} && /venv/bin/python -m pytest -q -p no:cacheprovider -n 4 --timeout=900 --continue-on-collection-errors
    (takes about 2-3 minutes)
  * If the property involves sempler.semi / drf (needs R through rpy2, which is absent), write a small fake `rpy2` stand-in inside your demonstration so that the Python side can be exercised.

DELIVERABLES - write them to {OUT}/ :
  1. patch.diff  - output of `git -C {WT} diff` (source change only; it must apply with `git apply` to a clean checkout of the same commit).
  2. demo.py     - a small self-contained program (run as `cd <checkout> && /venv/bin/python {OUT}/demo.py`, it MUST begin with `import sys, os; sys.path.insert(0, os.getcwd())` so that sempler is imported from the current directory and not from the installed copy) that exits 0 and prints PASS on the UNCHANGED tree and exits non-zero (prints FAIL and what went wrong) with your change applied. It should check the property itself on the specific input/sequence that triggers the problem (compute the expected answer independently, do not just compare to recorded output).
  3. notes.md    - 5-10 lines: what you changed, why it breaks the property, what is needed for it to manifest, why the existing tests do not notice.

Before finishing, VERIFY all of it yourself: (a) with the change, the full existing test-suite passes (same 104 passed); (b) demo.py fails with the change; (c) `git -C {WT} stash` (or checkout) -> demo.py passes on the unchanged tree; then re-apply your change so the worktree ends with the change applied. Report briefly what you did and the results of (a),(b),(c).
""")
